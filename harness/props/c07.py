"""C07 — every coordinate record of the first model of a PDB input is ingested.

Tie: real io.get_molecule -> main.drop_water -> main.setup_molecule (pdb.read_pdb,
Biomolecule.__init__, residue constructors) vs the Lean model P2P.Model.PdbRead.
Oracle: independent column-based read of the same text."""

from __future__ import annotations

import logging
import os
import random
import tempfile
from pathlib import Path

from core import REPO, Ctx, hexs

GENERATORS = ()
TRUSTED_BASE = [
    "Lean 4.33.0 kernel; axioms ⊆ {propext, Classical.choice, Quot.sound}",
    "hand-written model lean/P2P/Model/PdbRead.lean tied to pdb.py/biomolecule.py/residue.py/aa.py/na.py/main.py by differential execution",
    "Python universal-newline decoding of the input file (the model receives the lines readline() yields)",
    "records other than ATOM/HETATM/TER/END/MODEL are modelled as having no effect on the atoms",
    "atom-name aliases (altnames) are not modelled: generated residues never contain two spellings of one atom",
]
ASSUMPTIONS = ["ASCII input", "agreement model/implementation observed only on generated inputs"]

DATA = REPO / "tests" / "data"
_defn = None


def definition():
    global _defn
    if _defn is None:
        from pdb2pqr import io as pio

        _defn = pio.get_definitions()
    return _defn


def quiet():
    logging.getLogger("pdb2pqr").setLevel(logging.CRITICAL)
    logging.getLogger().setLevel(logging.CRITICAL)


# ---------------------------------------------------------------- real code


def real_ingest(text: str, drop: bool):
    """returns ('ok', [((chain,resseq,ins),[serials])...]) or ('ExcName', None)"""
    from pdb2pqr import io as pio
    from pdb2pqr import main as pmain

    quiet()
    fd, path = tempfile.mkstemp(suffix=".pdb", prefix="c07_")
    with os.fdopen(fd, "w", newline="") as f:
        f.write(text)
    try:
        try:
            pdblist, is_cif = pio.get_molecule(path)
            if drop:
                pdblist = pmain.drop_water(pdblist)
            bio, _d, _l = pmain.setup_molecule(pdblist, definition(), None)
        except Exception as e:  # noqa: BLE001
            name = type(e).__name__
            if name == "RuntimeError" and "Unable to find file" in str(e):
                name = "RuntimeError:empty"
            return name, None
        res = []
        for r in bio.residues:
            res.append(((r.chain_id, r.res_seq, r.ins_code), [a.serial for a in r.atoms]))
        return "ok", res
    finally:
        os.unlink(path)


def py_lines(text: str):
    """the lines readline() yields in text mode with universal newlines"""
    import io

    return io.StringIO(text, newline=None).readlines()


def parse_model_answer(ans: str):
    if not ans.startswith("ok|") and ans != "ok|":
        return ans, None
    body = ans[3:]
    res = []
    if body:
        for part in body.split("|"):
            head, _, ser = part.partition(":")
            c, n, i = head.split(",")
            from core import unhexs

            res.append(((unhexs(c), int(n), unhexs(i)), [int(x) for x in ser.split()] if ser else []))
    return "ok", res


# ------------------------------------------------------------------- oracle


def column_read(text: str, drop: bool):
    """independent column-based reader: expected set of serials of the first model,
    first occurrence per (chain, resSeq, iCode, name)."""
    seen = set()
    keep = []
    models_seen = 0
    ters = 0
    for raw in text.replace("\r\n", "\n").replace("\r", "\n").split("\n"):
        rec = raw[0:6]
        if rec.strip() == "TER":
            ters += 1  # a TER separates chains whose identifier is blank
        if rec.strip() == "MODEL":
            models_seen += 1
            if models_seen > 1:
                break
        if rec.strip() == "ENDMDL" and models_seen >= 1:
            break
        if rec in ("ATOM  ", "HETATM") and len(raw.rstrip()) >= 47:
            try:
                serial = int(raw[6:11])
                # (waters are never given a chain identifier, so a TER does not separate them)
                key = (raw[21], ters if raw[21] == " " and raw[17:20].strip() not in ("HOH", "WAT") else 0, raw[22:26], raw[26], raw[12:16].strip())
                float(raw[30:38]), float(raw[38:46]), float(raw[46:54])
            except ValueError:
                continue
            resn = raw[17:20].strip()
            if drop and resn in ("HOH", "WAT"):
                continue
            if key in seen:
                continue
            seen.add(key)
            keep.append(serial)
    return keep


# ---------------------------------------------------------------- generator

_pool = None


def pool():
    """atom lines of the offline PDB files grouped by residue"""
    global _pool
    if _pool is None:
        _pool = {}
        for p in sorted(DATA.glob("*.pdb")):
            residues, cur, key = [], [], None
            header = []
            for line in p.read_text().splitlines():
                if line.startswith(("ATOM  ", "HETATM")):
                    k = line[17:27]
                    if k != key and cur:
                        residues.append(cur)
                        cur = []
                    key = k
                    cur.append(line)
                elif not residues and not cur and line[:6].strip() not in ("MODEL", "ENDMDL", "END", "TER", ""):
                    header.append(line)
            if cur:
                residues.append(cur)
            _pool[p.name] = (header, residues)
    return _pool


def set_cols(line, a, b, s):
    line = line.ljust(80)
    return line[:a] + s + line[b:]


def gen_case(rng: random.Random):
    """returns (text, features)"""
    feats = set()
    name = rng.choice(list(pool()))
    header, residues = pool()[name]
    nres = rng.choice([1, 2, 3, 4, 6, 9])
    start = rng.randrange(0, max(1, len(residues) - nres))
    window = [list(r) for r in residues[start : start + nres]]
    # drop hydrogens sometimes irrelevant; keep as is
    serial = rng.choice([1, 1, 50, 9990, 9998, 90000])
    lines = []
    if rng.random() < 0.4:
        lines += rng.sample(header, min(len(header), rng.randint(1, 6)))
        feats.add("header")
    chain_mode = rng.choice(["keep", "keep", "blank", "split", "repeat", "interleave"])
    same_number = rng.random() < 0.15  # consecutive residues that differ only by insertion code (52, 52A, 52B)
    prev_rs, prev_icode = None, " "
    used_numbers = set()
    rs0 = rng.choice([1, 1, 5, 100, -3, -200, -999, 990, 9900])
    rstep = rng.choice([1, 1, 1, 2, 10])
    waters = rng.random() < 0.5
    blank_ter = rng.choice(["none", "one", "one", "every2"])
    blank_ter_last = rng.random() < 0.4
    models = rng.choice([0, 0, 0, 1, 2, 3])
    body = []
    nchunks = 0
    for ri, res in enumerate(window):
        chain = res[0][21]
        if chain_mode == "blank":
            chain = " "
            feats.add("blank-chain")
        elif chain_mode == "split" and ri >= len(window) // 2:
            chain = "B" if chain != "B" else "C"
        elif chain_mode == "repeat":
            chain = "AB"[(ri // 2) % 2]
            feats.add("repeated-chain")
        elif chain_mode == "interleave":
            # residues of two chains alternate and share their numbers: (A,1) (B,1) (A,2) (B,2) …
            chain = "AB"[ri % 2]
            feats.add("interleaved-chains-same-numbers")
        rs = rs0 + ri * rstep if chain_mode != "interleave" else rs0 + (ri // 2) * rstep
        if rs < 0:
            feats.add("negative-resseq")
        icode = " "
        if rng.random() < 0.1:
            icode = rng.choice("ABC")
            feats.add("icode")
        if same_number and chain_mode != "interleave" and prev_rs is not None and ri % 3 != 0:
            rs = prev_rs
            icode = "ABCDEFG"[("ABCDEFG".index(prev_icode) + 1) % 7] if prev_icode in "ABCDEFG" else "A"
            feats.add("same-number-different-icode")
        prev_rs, prev_icode = rs, icode
        used_numbers.add(rs)
        altloc_dup = rng.random() < 0.12
        for li, l in enumerate(res):
            l = set_cols(l, 21, 22, chain)
            l = set_cols(l, 22, 26, f"{rs:4d}")
            l = set_cols(l, 26, 27, icode)
            if altloc_dup and li == len(res) // 2:
                feats.add("altloc")
                la = set_cols(set_cols(l, 16, 17, "A"), 6, 11, f"{serial:5d}")
                serial += 1
                lb = set_cols(set_cols(l, 16, 17, "B"), 6, 11, f"{serial:5d}")
                lb = set_cols(lb, 30, 38, f"{float(lb[30:38]) + 0.5:8.3f}")
                serial += 1
                body += [la, lb]
                continue
            l = set_cols(l, 6, 11, f"{serial:5d}")
            serial += 1
            body.append(l)
        if chain_mode in ("split", "repeat") and rng.random() < 0.5:
            body.append("TER")
            feats.add("TER")
        # blank chain identifiers: the TER records alone delimit the chains (one TER between two chains and none at
        # the end; TER after every chain; ...): Biomolecule.__init__ counts them before it assigns identifiers
        if chain_mode == "blank" and blank_ter != "none" and ri < len(window) - 1 and ((blank_ter == "one" and ri == len(window) // 2 - 1 + (len(window) == 1)) or (blank_ter == "every2" and ri % 2 == 1)):
            body.append("TER")
            feats.add("blank-chain-TER:" + blank_ter)
    if chain_mode == "blank" and blank_ter_last and body and body[-1] != "TER":
        body.append("TER")
        feats.add("blank-chain-TER-after-last")
    # residue names that are fragments of the water names (A and T are nucleotides; HO, OH, WA ... unknown groups): a
    # membership test on the water names written as a substring test would take them for waters
    if rng.random() < 0.12:
        frag = rng.choice(["A", "T", "H", "O", "W", "HO", "OH", "HW", "WA", "AT", "OHW", "HWA"])
        victims = {l[17:27] for l in body if l.startswith(("ATOM", "HETATM"))}
        if victims:
            v = rng.choice(sorted(victims))
            body = [set_cols(l, 17, 20, frag.rjust(3)) if l.startswith(("ATOM", "HETATM")) and l[17:27] == v else l for l in body]
            feats.add("residue-name-fragment-of-water-name")
    if waters:
        wname = rng.choice(["HOH", "WAT"])
        wnum = None
        wused = set()
        for wi in range(rng.randint(1, 3)):
            x, y, z = (rng.uniform(-50, 50) for _ in range(3))
            wchain = rng.choice("AW ")
            num = rng.randint(1, 999)
            if wi > 0 and wnum is not None and rng.random() < 0.4:
                # same number as the previous water, other chain (HOH A 101 / HOH B 101)
                num = wnum[1]
                wchain = "B" if wnum[0] != "B" else "A"
                feats.add("waters-same-number-other-chain")
            tries = 0
            while ((wchain, num) in wused or num in used_numbers) and tries < 50:
                num = rng.randint(1, 999)
                tries += 1
            wused.add((wchain, num))
            wnum = (wchain, num)
            wrec = rng.choice(["HETATM", "HETATM", "ATOM  "])
            if wrec != "HETATM":
                feats.add("water-as-ATOM-record")
            body.append(f"{wrec}{serial:5d}  O   {wname} {wchain}{num:4d}    {x:8.3f}{y:8.3f}{z:8.3f}  1.00 20.00           O  ")
            serial += 1
        feats.add("water")
        if serial > 10000:
            feats.add("water-serial>=10000")
    # line-shape variations
    out = []
    for l in body:
        if l.startswith(("ATOM", "HETATM")):
            r = rng.random()
            if r < 0.1:
                l = l[:54]
                feats.add("short-line-54")
            elif r < 0.2:
                l = l[:66].rstrip()
                feats.add("short-line-66")
            elif r < 0.3:
                l = l.rstrip()
            elif r < 0.35:
                l = l.ljust(80) + "   "
        out.append(l)
    body = out
    # noise records
    def noise():
        r = rng.random()
        if r < 0.25:
            feats.add("blank-line")
            return rng.choice(["", "   ", "\t"])
        if r < 0.5:
            feats.add("unknown-record")
            return rng.choice(["FOOBAR some text", "XYZ", "REMARK", "REMARK 465 M RES C SSSEQI", "LINK", "SITE     1", "CONECT 1 2", "ANISOU    1  N   ALA A   1     1000   1000   1000      0      0      0", "HETNAM     HOH WATER", "MASTER", "CRYST1"])
        if r < 0.75:
            feats.add("TER")
            return rng.choice(["TER", "TER       5      ALA A   3"])
        feats.add("header-like")
        return rng.choice(header) if header else "REMARK   1"

    k = rng.choice([0, 0, 1, 2, 4])
    for _ in range(k):
        body.insert(rng.randrange(len(body) + 1), noise())
    # models
    if models:
        feats.add(f"models={models}")
        allb = []
        numbered = rng.random() < 0.8
        end_after_models = rng.random() < 0.3  # MODEL / atoms / ENDMDL / END for every model
        if end_after_models:
            feats.add("END-after-each-model")
        for m in range(1, models + 1):
            allb.append(f"MODEL     {m:4d}" if numbered else rng.choice(["MODEL", f"MODEL {m}"]))
            if not numbered:
                feats.add("MODEL-without-number")
            allb += body
            allb.append("ENDMDL")
            if end_after_models:
                allb.append("END")
        body = allb
    lines += body
    # END records
    e = rng.random()
    if e < 0.55:
        lines.append("END")
    elif e < 0.65:
        lines += ["END", "END"]
        feats.add("repeated-END")
    elif e < 0.7:
        lines.insert(rng.randrange(len(lines) + 1), "END")
        lines.append("END")
        feats.add("END-inside")
    elif e < 0.75:
        lines.insert(0, "END")
        feats.add("END-first")
    else:
        feats.add("no-END")
    nl = "\r\n" if rng.random() < 0.2 else "\n"
    if nl == "\r\n":
        feats.add("CRLF")
    text = nl.join(lines) + (nl if rng.random() < 0.9 else "")
    return text, feats


# ----------------------------------------------------------- classification


def line_kind(l: str) -> str:
    s = l.strip()
    if s == "":
        return "blank"
    rec = s[:6].strip()
    if rec in ("ATOM", "HETATM"):
        if len(s) < 27:
            return "short-atom"
        return "atom"
    if rec in ("TER", "END", "MODEL", "ENDMDL"):
        if rec == "MODEL" and not s[10:14].strip().lstrip("-").isdigit():
            return "MODEL-nonum"
        return rec
    return "other"


def outcome(text, drop):
    """property outcome on the real code: None if it holds, else kind string"""
    status, res = real_ingest(text, drop)
    exp = column_read(text, drop)
    if status != "ok":
        if not exp:
            return None  # nothing to ingest: a loud failure is C12's business
        return f"crash:{status}"
    got = [s for _k, ss in res for s in ss]
    lost = set(exp) - set(got)
    extra = set(got) - set(exp)
    dup = len(got) != len(set(got))
    if lost:
        return "lost"
    if extra:
        return "extra"
    if dup:
        return "duplicated"
    return None


def wellformed(lines):
    """generator invariants a minimised case must keep: MODEL/ENDMDL properly nested and, inside one
    model, the atoms of one residue contiguous (no residue key re-appears after another one)"""
    inside = False
    seen, cur = set(), None
    for l in lines:
        k = line_kind(l)
        if k in ("MODEL", "MODEL-nonum"):
            if inside:
                return False
            inside, seen, cur = True, set(), None
        elif k == "ENDMDL":
            if not inside:
                return False
            inside = False
            seen, cur = set(), None
        elif k == "atom":
            key = l[21:27]
            if key != cur:
                if key in seen:
                    return False
                seen.add(key)
                cur = key
    return not inside


def ddmin(lines, nl, drop, kind):
    """remove lines while the same kind of violation persists (and the case stays well-formed)"""
    changed = True
    n = 0
    while changed and n < 400:
        changed = False
        i = 0
        chunk = max(1, len(lines) // 4)
        while chunk >= 1:
            i = 0
            while i < len(lines):
                trial = lines[:i] + lines[i + chunk :]
                n += 1
                if trial and wellformed(trial) and outcome(nl.join(trial) + nl, drop) == kind:
                    lines = trial
                    changed = True
                else:
                    i += chunk
                if n > 400:
                    break
            chunk //= 2
    return lines


def signature(lines, drop, kind):
    kinds = [line_kind(l) for l in lines]
    # collapse runs of atoms
    shape = []
    for k in kinds:
        if k == "atom" and shape and shape[-1] == "atom":
            continue
        shape.append(k)
    sig = {"kind": kind, "shape": " ".join(shape), "drop_water": drop}
    if kind == "extra":
        # an END record between two records of one atom key (alternate locations of one atom):
        # END closes the pending residue, so the second record starts a residue of its own
        last_end = None
        keys_before_end = set()
        cur = set()
        for l in lines:
            k = line_kind(l)
            if k == "END":
                keys_before_end |= cur
                last_end = True
            elif k == "atom":
                key = (l[21:27], l[12:16].strip())
                if last_end and key in keys_before_end:
                    return {"kind": "extra", "cause": "END-inside-a-residue-splits-it"}
                cur.add(key)
            elif k in ("MODEL", "MODEL-nonum", "ENDMDL"):
                pass
    if kind in ("extra",) and drop:
        serials = [int(l[6:11]) for l in lines if line_kind(l) == "atom" and l[17:20].strip() in ("HOH", "WAT")]
        sig["water_serial_ge_10000"] = any(s >= 10000 for s in serials)
    return sig


def run(ctx: Ctx):
    rng = ctx.rng
    n = ctx.scale(350, 12000)
    have_model = ctx.driver.available()
    ctx.extra["rule"] = (
        "PDB texts cut from the offline structures (1-9 residues) with chain/numbering/altloc/icode/water edits, noise records, "
        "TER/END/MODEL framing, short lines, CRLF; a case is (feature set, drop_water); distinct = distinct feature sets x flag; "
        "cases whose only feature is a trailing END are counted as trivial and excluded"
    )
    base_atoms = [
        "ATOM      1  N   ALA A   1      11.104   6.134  -6.504  1.00  0.00           N  ",
        "ATOM      2  CA  ALA A   1      11.639   6.071  -5.147  1.00  0.00           C  ",
        "ATOM      3  C   ALA A   2      12.100   7.400  -4.600  1.00  0.00           C  ",
    ]
    corpus = [
        ("\n".join([base_atoms[0], "", base_atoms[1], "END"]) + "\n", False),  # blank line
        ("\n".join([*base_atoms, "END", "END"]) + "\n", False),  # repeated END
        ("\n".join(["END", *base_atoms]) + "\n", False),
        ("\n".join([base_atoms[0], "HETATM10000  O   HOH A 202      12.000  10.000  10.000  1.00  0.00           O  ", "END"]) + "\n", True),
        ("\n".join(["MODEL", *base_atoms, "ENDMDL", "MODEL", *base_atoms, "ENDMDL"]) + "\n", False),
        ("\n".join(["MODEL        1", *base_atoms[:2], "ENDMDL", "MODEL        2", *base_atoms[:2], "ENDMDL", "END"]) + "\n", False),
        ("\n".join([base_atoms[0][:54], base_atoms[1][:60], "TER", "END"]) + "\n", False),
    ]
    cases = [(t, d, {"corpus"}) for t, d in corpus]
    for _ in range(n):
        text, feats = gen_case(rng)
        cases.append((text, rng.random() < 0.3, feats))
    reqs = []
    for text, drop, _f in cases:
        reqs.append(f"pdb.ingest\t{int(drop)}\t{';'.join(hexs(l) for l in py_lines(text))}")
    answers = ctx.driver.ask(reqs) if have_model else None
    seen_sigs = set()
    for i, (text, drop, feats) in enumerate(cases):
        ctx.evaluations += 1
        status, res = real_ingest(text, drop)
        fkey = (tuple(sorted(feats)), drop)
        if feats - {"no-END"}:
            ctx.distinct.add(fkey)
        for f in feats:
            ctx.count("features", f)
        ctx.count("impl-outcome", status)
        if answers is not None:
            mstatus, mres = parse_model_answer(answers[i])
            mcmp = mstatus if mstatus != "Exception" else "Exception"
            scmp = status if status != "RuntimeError:empty" else "ok-empty"
            if mstatus == "ok" and mres == [] and status == "RuntimeError:empty":
                pass  # get_molecule refuses an empty record list; the model returns no residues
            elif mcmp != scmp or (mres or []) != (res or []):
                ctx.disagree("ingest", {"text": text, "drop_water": drop}, answers[i][:300], f"{status} {str(res)[:300]}")
        kind = outcome(text, drop)
        ctx.count("oracle", "holds" if kind is None else kind)
        if i < 2:
            ctx.sample({"text": text[:600], "drop_water": drop, "features": sorted(feats), "impl": status, "property": kind or "holds"})
        if kind is not None:
            nl = "\r\n" if "\r\n" in text else "\n"
            lines = text.split(nl)
            if lines and lines[-1] == "":
                lines.pop()
            rough = (kind, tuple(sorted(set(line_kind(l) for l in lines) - {"atom", "other"})), drop and "water" in feats)
            if rough in seen_sigs:
                ctx.count("violations-not-minimised(same rough class)")
                continue
            seen_sigs.add(rough)
            small = ddmin(lines, nl, drop, kind)
            sig = signature(small, drop, kind)
            ctx.violate(sig, f"{kind}: PDB input of {len(small)} line(s) [{sig.get('shape') or sig.get('cause')}] is not ingested as the column reader sees it", {"text": nl.join(small) + nl, "drop_water": drop, "original_text": text})
            ctx.sample({"minimised": nl.join(small), "kind": kind}, limit=8)


def replay(ctx: Ctx, data: dict) -> bool:
    rp = data.get("replay", data)
    kind = outcome(rp["text"], rp["drop_water"])
    print("outcome on the real code:", kind or "holds")
    return kind is not None
