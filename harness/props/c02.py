"""C02 — every residue carries the formal charge of its protonation and terminal state.

Tie: (1) real Biomolecule.set_termini on generated chain layouts vs the Lean model
P2P.Model.Termini (assign_termini, hidden-chain loop; the cyclic test is an oracle bit logged
from the real call); (2) end to end: residue.charge of every fully parameterised residue of real
runs vs the Lean specification `formalCharge` (evaluated by the driver on the residue's final
description), total = sum, PQR charge column = total."""

from __future__ import annotations

import random
from decimal import Decimal

import gen_struct as G
from core import Ctx, hexs, unhexs
from props import c01, c07

import gen.consts as genconsts
import gen.ff as genff
import gen.topology as gentopo
import gen.ffcharges as genffcharges

GENERATORS = (gentopo.generate, genff.generate, genconsts.generate)
GENERATORS2 = (genffcharges.generate,)
TRUSTED_BASE = [
    "Lean 4.33.0 kernel; axioms ⊆ {propext, Classical.choice, Quot.sound}",
    "hand-written models lean/P2P/Model/{Termini,State,FF}.lean tied to biomolecule.py / aa.py / na.py by differential execution; topology and force-field tables regenerated from /repo each run",
    "the cyclic test (N-C distance) enters the termini model as an oracle bit per assign_termini call, logged from the real call",
    "residue.charge rounds a float sum to four decimals; the model sums exact decimals",
]
ASSUMPTIONS = ["no nucleic-acid structure is available offline: strands are synthesised from the NA.xml templates", "agreement observed only on generated inputs"]
FFS = c01.FFS


def kind_of(res):
    from pdb2pqr import aa, na

    if isinstance(res, aa.Amino):
        return "a"
    if isinstance(res, na.Nucleic):
        return "n"
    if isinstance(res, aa.WAT):
        return "w"
    return "o"


# ------------------------------------------------------------ layouts for set_termini


def gen_layout(rng: random.Random):
    feats = set()
    chains = []
    nch = rng.choice([1, 1, 2, 3])
    waters = []
    for ci in range(nch):
        _f, res = G.window(rng, rng.choice([1, 2, 3, 4, 6]))
        cid = "ABCD"[ci] if rng.random() < 0.8 else " "
        if cid == " ":
            feats.add("blank-chain")
        G.set_chain(res, cid, rng.choice([1, 20]))
        G.rigid(res, [[1, 0, 0], [0, 1, 0], [0, 0, 1]], (60.0 * ci, 0, 0))
        if len(res) == 1:
            feats.add("single-residue-chain")
        if len(res) >= 3 and rng.random() < 0.3:
            # internal OXT: hidden chain end
            k = rng.randint(0, len(res) - 2)
            c = next(a for a in res[k] if a.name == "C")
            o = c.copy()
            o.name, o.elem = "OXT", "O"
            o.x += 1.2
            res[k].append(o)
            feats.add("internal-OXT")
        if rng.random() < 0.25:
            # trailing hetero residues in the same chain
            c = G.centroid(res)
            kindh = rng.choice(["water", "ligand", "NME"])
            w = G.water(rng, cid, 800 + ci, c, 10.0, {"water": "HOH", "ligand": "LIG", "NME": "NME"}[kindh])
            if kindh != "water":
                w[0].name = "C1"
            res.append(w)
            feats.add("trailing-" + kindh)
        chains.append(res)
    if rng.random() < 0.15:
        # the cyclic peptide of the test data as one more chain
        cyc = [[a.copy() for a in r] for r in G.pool()["5vav_cyclic_peptide.pdb"] if G.is_protein(r)]
        G.set_chain(cyc, "Z", 1)
        G.rigid(cyc, [[1, 0, 0], [0, 1, 0], [0, 0, 1]], (0, 80.0, 0))
        if rng.random() < 0.5:
            # waters / a hetero group filed under the cyclic peptide's own chain identifier, after it
            cc = G.centroid(cyc)
            kindh = rng.choice(["water", "water", "ligand"])
            w = G.water(rng, "Z", 950, (cc[0] + 20.0, cc[1], cc[2]), 4.0, "HOH" if kindh == "water" else "LIG")
            if kindh != "water":
                w[0].name = "C1"
            cyc.append(w)
            feats.add("cyclic+trailing-" + kindh)
        chains.append(cyc)
        feats.add("cyclic")
    text = G.to_pdb(chains, waters, ter=rng.random() < 0.8)
    return text, feats


def real_set_termini(text, neutraln, neutralc):
    """returns (before, bits, after|error)"""
    import os
    import tempfile

    from pdb2pqr import biomolecule as bm
    from pdb2pqr import io as pio
    from pdb2pqr import main as pmain
    from pdb2pqr import utilities as util

    G.quiet()
    fd, path = tempfile.mkstemp(suffix=".pdb", prefix="c02_")
    with os.fdopen(fd, "w") as f:
        f.write(text)
    try:
        pdblist, _ = pio.get_molecule(path)
    finally:
        os.unlink(path)
    defn = pio.get_definitions()
    bio, _d, _l = pmain.setup_molecule(pdblist, defn, None)
    ids = {}
    before = []
    for ch in bio.chains:
        row = []
        for r in ch.residues:
            ids[id(r)] = len(ids)
            row.append((ids[id(r)], kind_of(r), r.name, [a.name for a in r.atoms]))
        before.append(row)
    bits = []
    orig = bm.Biomolecule.assign_termini

    def wrapped(self, chain, *, neutraln=False, neutralc=False):
        if len(chain.residues) > 0:
            r0, rl = chain.residues[0], chain.residues[-1]
            # the ring closes on the last amino residue, looking through trailing waters / hetero groups (model: ringEnd)
            for rt in reversed(chain.residues):
                k = kind_of(rt)
                if k == "a":
                    rl = rt
                    break
                if rt.name in ("NH2", "NME") or k == "n":
                    break
            cyc = False
            if "N" in r0.map and "C" in rl.map:
                cyc = util.distance(r0.map["N"].coords, rl.map["C"].coords) < 1.35
            bits.append(cyc)
        return orig(self, chain, neutraln=neutraln, neutralc=neutralc)

    bm.Biomolecule.assign_termini = wrapped
    try:
        try:
            bio.set_termini(neutraln=neutraln, neutralc=neutralc)
        except IndexError:
            return before, bits, "IndexError", None
    finally:
        bm.Biomolecule.assign_termini = orig
    after = []
    for ch in bio.chains:
        after.append([(ids[id(r)], (bool(getattr(r, "is_n_term", 0)), bool(getattr(r, "is_c_term", 0)), bool(getattr(r, "is5term", 0)), bool(getattr(r, "is3term", 0))), list(getattr(r, "patches", []) or [])) for r in ch.residues])
    return before, bits, after, bio


def check_termini(after, bits_first_pass, bio, neutral=None):
    """property clause on the real result: per chain exactly the first amino residue is the
    N-terminus and exactly the last one the C-terminus (none for cyclic chains)"""
    pr = []
    for ch_i, ch in enumerate(after):
        am = [(rid, fl, pt) for rid, fl, pt in ch if any(p.endswith(("NTERM", "CTERM")) for p in pt) or True]
        kinds = {}
        for chain in bio.chains:
            for r in chain.residues:
                kinds[id(r)] = kind_of(r)
        real_chain = bio.chains[ch_i]
        aminos = [i for i, r in enumerate(real_chain.residues) if kind_of(r) == "a"]
        if not aminos:
            continue
        from pdb2pqr import utilities as util

        # a head-to-tail cyclic peptide: the ring closes on the LAST AMINO residue of the chain (the property speaks of the
        # peptide; waters / hetero groups filed under the same chain identifier after it are not part of the ring).
        # The first version of this oracle tested the chain's very last residue, as the code then did - and so agreed
        # with a genuine defect (fix: recorded in known_findings.txt)
        r0 = real_chain.residues[0]
        rl = real_chain.residues[aminos[-1]]
        for i in range(len(real_chain.residues) - 1, -1, -1):
            rr = real_chain.residues[i]
            if kind_of(rr) == "a":
                rl = rr
                break
            if rr.name in ("NH2", "NME") or kind_of(rr) == "n":
                rl = real_chain.residues[-1]
                break
        cyc = "N" in r0.map and "C" in rl.map and util.distance(r0.map["N"].coords, rl.map["C"].coords) < 1.35
        nflags = [i for i in aminos if ch[i][1][0]]
        cflags = [i for i in aminos if ch[i][1][1]]
        if cyc:
            if nflags or cflags:
                pr.append(({"kind": "cyclic-has-termini"}, f"chain {ch_i}: cyclic chain got termini {nflags} {cflags}"))
            continue
        exp_n = [aminos[0]] if kind_of(real_chain.residues[0]) == "a" else []
        # last amino residue, looking through trailing non-amino residues (NH2/NME caps stop it)
        exp_c = []
        for i in range(len(real_chain.residues) - 1, -1, -1):
            r = real_chain.residues[i]
            if kind_of(r) == "a":
                exp_c = [i]
                break
            if r.name in ("NH2", "NME") or kind_of(r) == "n":
                break
        if nflags != exp_n:
            pr.append(({"kind": "n-terminus"}, f"chain {ch_i}: N-terminal flags on residues {nflags}, expected {exp_n}"))
        if cflags != exp_c:
            pr.append(({"kind": "c-terminus"}, f"chain {ch_i}: C-terminal flags on residues {cflags}, expected {exp_c}"))
        for i in aminos:
            pts = ch[i][2]
            nt = {p for p in pts if p in ("NTERM", "NEUTRAL-NTERM")}
            ct = {p for p in pts if p in ("CTERM", "NEUTRAL-CTERM")}
            if (i not in exp_n and nt) or (i not in exp_c and ct) or len(nt) > 1 or len(ct) > 1 or (i in exp_n and not nt) or (i in exp_c and not ct):
                pr.append(({"kind": "terminus-patch"}, f"chain {ch_i} residue {i}: patches {pts}"))
            elif neutral is not None:
                # the kind of terminus is the one the run asked for (an N-terminal proline is neutralised on its own)
                nn, nc = neutral
                want_n = "NEUTRAL-NTERM" if nn else "NTERM"
                want_c = "NEUTRAL-CTERM" if nc else "CTERM"
                is_pro = real_chain.residues[i].name == "PRO"
                if i in exp_n and nt and nt != {want_n} and not (is_pro and nt == {"NEUTRAL-NTERM"}):
                    pr.append(({"kind": "terminus-kind", "end": "N"}, f"chain {ch_i} residue {i}: N-terminus patched {sorted(nt)} with neutraln={nn}"))
                if i in exp_c and ct and ct != {want_c}:
                    pr.append(({"kind": "terminus-kind", "end": "C"}, f"chain {ch_i} residue {i}: C-terminus patched {sorted(ct)} with neutralc={nc}"))
    return pr


def tie_termini(ctx: Ctx, n: int):
    rng = ctx.rng
    seen = set()
    for ci in range(n):
        text, feats = gen_layout(rng)
        nn, nc = rng.random() < 0.2, rng.random() < 0.2
        try:
            before, bits, after, bio = real_set_termini(text, nn, nc)
        except Exception as e:  # noqa: BLE001
            ctx.count("layout-outcome", f"setup:{type(e).__name__}")
            continue
        ctx.evaluations += 1
        ctx.distinct.add(("layout", tuple(sorted(feats)), nn, nc))
        for f in feats:
            ctx.count("layout-features", f)
        ctx.count("layout-outcome", "ok" if not isinstance(after, str) else after)
        if ctx.driver.available():
            enc = ";".join("|".join(f"{i},{k},{hexs(nm)},{'+'.join(hexs(a) for a in atoms)}" for i, k, nm, atoms in ch) for ch in before)
            ans = ctx.driver.ask([f"term.set\t{int(nn)}\t{int(nc)}\t{''.join('1' if b else '0' for b in bits)}\t{enc}"])[0]
            if ans == "IndexError" or isinstance(after, str):
                if ans != after:
                    ctx.disagree("set_termini(error)", {"pdb": text}, ans[:200], str(after)[:200])
            else:
                model = []
                for ch in ans.split(";"):
                    row = []
                    for r in ch.split("|") if ch else []:
                        i, fl, pt = r.split(":")
                        row.append((int(i), tuple(c == "1" for c in fl), [unhexs(p) for p in pt.split("+")] if pt else []))
                    model.append(row)
                if model != after:
                    ctx.disagree("set_termini", {"pdb": text, "neutraln": nn, "neutralc": nc}, str(model)[:600], str(after)[:600])
        if not isinstance(after, str):
            for sig, msg in check_termini(after, bits, bio, (nn, nc)):
                sig = {**sig, "features": ",".join(sorted(feats))}
                k = tuple(sorted(sig.items()))
                if k not in seen:
                    seen.add(k)
                    ctx.violate(sig, msg, {"pdb": text, "neutraln": nn, "neutralc": nc, "stage": "set_termini"})


# ------------------------------------------------------------ end to end


def check_charges(ctx: Ctx, ff, run):
    """per-residue formal charge, total = sum, PQR column = total"""
    pr = []
    bio = run.biomolecule
    infos = [G.residue_info(r) for r in bio.residues]
    ans = ctx.driver.ask([f"state.formal\t{';'.join(c01.enc_info(i) for i in infos)}"])[0].split(";") if ctx.driver.available() else None
    missed = {id(a) for a in (run.missed or [])}
    total = Decimal(0)
    complete = True
    for k, (res, info) in enumerate(zip(bio.residues, infos)):
        full = not any(id(a) in missed for a in res.atoms)
        q = Decimal(repr(res.charge))
        total += q
        if not full:
            complete = False
            continue
        if ans is None or ans[k] == "none":
            continue
        want = int(ans[k])
        if info["is_nucleic"] and (info["5"] or info["3"]):
            continue  # terminal nucleotides are non-integral on their own; the strand total is checked
        # the name-based specification the kernel-checked charge table uses must agree with the
        # residue-based one (and with the real charge) for every fully parameterised amino residue
        if info["is_amino"] and info["ffname"] and not (info["cls"] == "PRO" and info["n"]) and not (info["n"] and info["c"]):
            byname = int(ctx.driver.ask([f"charge.formalname\t{hexs(info['ffname'])}"])[0])
            ctx.count("formal-by-name", "agrees" if byname == want else "differs")
            if byname != want:
                ctx.disagree("formalOfName(ffname) vs formalCharge(residue)", {"ffname": info["ffname"], "patches": info["patches"]}, byname, want)
        if q != want:
            pos = "N" if info["n"] else "C" if info["c"] else "I"
            pr.append(({"ff": ff, "state": info["ffname"], "position": pos, "kind": "residue-charge"}, f"{res} ({info['ffname']}): charge {q}, formal charge {want}"))
    if run.pqr is not None and complete:
        col = sum(Decimal(t[-2]) for t in G.pqr_atoms(run.pqr))
        if abs(col - total) > Decimal("0.0021") + Decimal("0.00005") * len(G.pqr_atoms(run.pqr)):
            pr.append(({"ff": ff, "state": "-", "position": "-", "kind": "pqr-total"}, f"charge column sums to {col}, residues to {total}"))
        if total != total.to_integral_value() and abs(total - total.to_integral_value()) > Decimal("0.001"):
            pr.append(({"ff": ff, "state": "-", "position": "-", "kind": "non-integral-total"}, f"total {total}"))
    return pr


# ------------------------------------------------------------ nucleic-acid strands (synthesised from NA.xml)

_nuc_cache = {}


def nuc_model(ctx: Ctx, base: str, pos: str):
    """run-time reference atoms and look-up name of a nucleotide at a strand position, from the Lean model"""
    k = (base, pos)
    if k not in _nuc_cache:
        ans = ctx.driver.ask([f"nuc.atoms\t{hexs(base)}\t{pos}"])[0]
        atoms, _, nm = ans.partition("#")
        _nuc_cache[k] = ([unhexs(a) for a in atoms.split(",")] if atoms else [], unhexs(nm))
    return _nuc_cache[k]


def check_strands(ctx: Ctx, ff, run, strands):
    """the request is `strands` = [(chain id, [look-up base names])]: every residue carries exactly the atoms of its
    run-time reference (model: base definition + 5TERM / 3TERM), is looked up under base + 5 / 3, and each strand
    sums to -1 per phosphate (the 5'-terminal one is removed by design)"""
    from pdb2pqr import na

    pr = []
    bio = run.biomolecule
    bychain = {}
    for res in bio.residues:
        if isinstance(res, na.Nucleic):
            bychain.setdefault(res.chain_id, []).append(res)
    missed = {id(a) for a in (run.missed or [])}
    for cid, bases in strands:
        rs = bychain.get(cid, [])
        kind = "DNA" if all(b[0] == "D" for b in bases) else "RNA" if all(b[0] == "R" for b in bases) else "chimeric"
        if len(rs) != len(bases):
            pr.append(({"ff": ff, "kind": "strand-residues", "strand": kind}, f"strand {cid}: {len(bases)} nucleotides in the input, {len(rs)} in the final model"))
            continue
        total, full = Decimal(0), True
        for i, (res, b) in enumerate(zip(rs, bases)):
            pos = "5" if i == 0 else "3" if i == len(bases) - 1 else "m"
            ctx.count("nucleotide-cells", f"{ff}:{b}:{pos}")
            if ctx.driver.available():
                atoms, lk = nuc_model(ctx, b, pos)
                names = [a.name for a in res.atoms]
                if sorted(names) != sorted(atoms):
                    pr.append(({"ff": ff, "kind": "nucleotide-atoms", "state": lk}, f"{res} ({lk}): atoms {sorted(set(names) ^ set(atoms))} differ from the run-time reference of the model"))
                if res.ffname != lk:
                    pr.append(({"ff": ff, "kind": "nucleotide-name", "state": lk}, f"{res}: looked up as {res.ffname!r}, model says {lk!r}"))
            if any(id(a) in missed for a in res.atoms):
                full = False
                if ff in c01.NUC_FFS[b[0]]:
                    pr.append(({"ff": ff, "kind": "nucleotide-unparameterised", "state": b + {"5": "5", "3": "3", "m": ""}[pos]}, f"{res}: {ff} defines the nucleotides but atoms {[a.name for a in res.atoms if id(a) in missed][:4]} have no parameters"))
            total += Decimal(repr(res.charge))
        if full:
            want = -(len(bases) - 1)
            ctx.count("strand-total", f"{ff}:{kind}:{'ok' if abs(total - want) <= Decimal('1e-6') else 'off'}")
            if abs(total - want) > Decimal("1e-6"):
                pr.append(({"ff": ff, "kind": "strand-total", "strand": kind, "off_by": str(abs(total - want).quantize(Decimal("0.0001")))}, f"strand {cid} ({'-'.join(bases)}): charge {total}, -1 per phosphate is {want}"))
    for res in bio.residues:
        if kind_of(res) == "w" and not any(id(a) in missed for a in res.atoms) and abs(Decimal(repr(res.charge))) > Decimal("1e-6"):
            pr.append(({"ff": ff, "kind": "water-charge"}, f"{res}: charge {res.charge}"))
    return pr


def chimeric_requests(rng):
    """a DNA 5' end followed by an RNA 3' end (and the reverse): known finding (chimeric_strand_refuted)"""
    for ff in ("AMBER", "TYL06"):
        for bases in (["DA", "RU"], ["RG", "DC", "DT"]):
            res = [G.nucleotide(b, "A", 1 + i, (12.0 * i, 0.0, 0.0)) for i, b in enumerate(bases)]
            yield G.to_pdb([res]), ff, [f"--ff={ff}", "--whitespace", "--keep-chain"], {"nucleic:chimeric"}, [("A", bases)]


# ------------------------------------------------------------ chain ends as the input file delimits them

SIDE = {"ASP": -1, "GLU": -1, "LYS": 1, "ARG": 1}


def gen_segments(rng: random.Random):
    """2-3 complete peptide segments whose ends the FILE makes explicit (a TER record and/or a change of the chain
    identifier), with blank or lettered chain ids, with/without a TER after the last segment, first segments with/without OXT"""
    nseg = rng.choice([2, 2, 3])
    blank = rng.random() < 0.6
    ter_last = rng.random() < 0.5
    lines, serial, request = [], 1, []
    feats = {"blank-ids" if blank else "lettered-ids", "ter-after-last" if ter_last else "no-ter-after-last", f"segments:{nseg}"}
    for si in range(nseg):
        _f, res = G.window(rng, rng.choice([2, 3, 4, 5]))
        G.set_chain(res, " " if blank else "ABC"[si], 1 + 30 * si)
        G.rigid(res, [[1, 0, 0], [0, 1, 0], [0, 0, 1]], (70.0 * si, 0, 0))
        if rng.random() < 0.4 and not any(a.name == "OXT" for a in res[-1]):
            c = next(a for a in res[-1] if a.name == "C")
            o = c.copy()
            o.name, o.elem = "OXT", "O"
            o.x += 1.2
            res[-1].append(o)
            feats.add("segment-with-OXT")
        else:
            feats.add("segment-without-OXT")
        for r in res:
            for a in r:
                lines.append(a.line(serial))
                serial += 1
        if si < nseg - 1 or ter_last:
            lines.append("TER")
        request.append([(r[0].resn, r[0].resseq) for r in res])
    lines.append("END")
    return "\n".join(lines) + "\n", feats, request


def check_segments(ctx: Ctx, ff, run, request):
    """every segment the file delimits is a chain: its first residue carries +1, its last -1 on top of the side chain"""
    pr = []
    byseq = {}
    for res in run.biomolecule.residues:
        byseq.setdefault(res.res_seq, []).append(res)
    missed = {id(a) for a in (run.missed or [])}
    for seg in request:
        for k, (resn, seq) in enumerate(seg):
            cands = [r for r in byseq.get(seq, []) if r.name[:3] == resn or True]
            if len(cands) != 1:
                pr.append(({"ff": ff, "kind": "segment-residue"}, f"{resn} {seq}: {len(cands)} residues with that number in the final model"))
                continue
            res = cands[0]
            if any(id(a) in missed for a in res.atoms) or resn in ("HIS", "CYS"):
                continue
            want = SIDE.get(resn, 0) + (1 if k == 0 else 0) - (1 if k == len(seg) - 1 else 0)
            q = Decimal(repr(res.charge))
            if abs(q - want) > Decimal("1e-6"):
                where = "first" if k == 0 else "last" if k == len(seg) - 1 else "inner"
                pr.append(({"ff": ff, "kind": "segment-end-charge", "where": where}, f"{res} ({where} residue of a segment the file delimits by TER / chain id): charge {q}, expected {want}"))
    return pr


def run(ctx: Ctx):
    rng = ctx.rng
    ctx.extra["rule"] = (
        "(1) chain layouts: 1-4 chains of 1-6 residues, blank chain ids, internal OXT, trailing water/ligand/NME, the cyclic test peptide, neutral-terminus flags; "
        "(2) every pre-named protonation state at the first and last chain position and disulfide pairs (terminal cysteines included), then peptide windows with every residue type forced in turn at first/middle/last position, pre-named states, two chains, waters x six force fields; "
        "a case is (layout feature set, flags) or (ff, set of final force-field residue names); distinct counts distinct tuples"
    )
    tie_termini(ctx, ctx.scale(60, 2500))
    n = ctx.scale(60, 2500)
    seen = set()
    cases = list(c01.sweep_cases(rng)) + [c01.gen_case(rng) for _ in range(n)]
    for ci, (text, ff, opts, feats) in enumerate(cases):
        r = G.run_pipeline(text, opts)
        ctx.evaluations += 1
        ctx.count("pipeline-outcome", r.status)
        if r.status != "ok":
            continue
        names = tuple(sorted({getattr(x, "ffname", x.name) for x in r.biomolecule.residues}))
        ctx.distinct.add(("run", ff, names))
        for nm in names:
            ctx.count("final-names", f"{ff}:{nm}")
        if ci < 2:
            ctx.sample({"options": opts, "residues": [(str(x), getattr(x, "ffname", None), x.charge) for x in r.biomolecule.residues]})
        for sig, msg in check_charges(ctx, ff, r):
            k = tuple(sorted(sig.items()))
            if k in seen:
                continue
            seen.add(k)
            ctx.violate(sig, msg, {"pdb": text, "options": opts, "ff": ff, "stage": "pipeline"})
    run_extra(ctx)


def cyclic_requests(rng):
    """the head-to-tail cyclic peptide of the test data with waters after it: filed under the peptide's chain identifier
    (as deposited entries file them) or under another one, as HETATM or ATOM records, with / without TER, with / without
    --drop-water. Oracle from the request: the ring is closed in the INPUT coordinates (N of the first, C of the last
    amino residue < 1.35 A), so the first residue carries no +1 and the last no -1."""
    import math

    cyc = [[a.copy() for a in r] for r in G.pool()["5vav_cyclic_peptide.pdb"] if G.is_protein(r)]
    n = next(a for a in cyc[0] if a.name == "N")
    c = next(a for a in cyc[-1] if a.name == "C")
    closed = math.dist((n.x, n.y, n.z), (c.x, c.y, c.z)) < 1.35
    G.set_chain(cyc, "A", 1)
    k = 0
    for rec in ("HETATM", "ATOM  "):
        for wchain in ("A", "W"):
            for ter in (False, True):
                for drop in (False, True):
                    ff = ("AMBER", "PARSE", "CHARMM")[k % 3]
                    k += 1
                    cen = G.centroid(cyc)
                    waters = [G.water(rng, wchain, 900 + j, (cen[0] + 25.0, cen[1], cen[2]), 5.0, "HOH", rec) for j in range(rng.randint(1, 3))]
                    text = G.to_pdb([cyc], waters, ter=ter)
                    yield text, ff, [f"--ff={ff}"] + (["--drop-water"] if drop else []), {"cyclic+waters:" + ("same-chain" if wchain == "A" else "other-chain"), "waters-as:" + rec.strip(), "ter" if ter else "no-ter", "drop-water" if drop else "keep-water"}, closed, (cyc[0][0].resn, cyc[-1][0].resn)


def run_extra(ctx: Ctx):
    """streams added with the nucleic-acid model and the round-4 seeded defects"""
    rng = ctx.rng
    seen = set()
    for text, ff, opts, feats, closed, (first, last) in cyclic_requests(rng):
        r = G.run_pipeline(text, opts)
        ctx.evaluations += 1
        ctx.count("cyclic-run", r.status)
        for f in feats:
            ctx.count("cyclic-features", f)
        ctx.distinct.add(("cyclic", ff, tuple(sorted(feats))))
        if r.status != "ok" or not closed:
            continue
        aminos = [x for x in r.biomolecule.residues if kind_of(x) == "a"]
        q0, q1 = Decimal(repr(aminos[0].charge)), Decimal(repr(aminos[-1].charge))
        w0, w1 = SIDE.get(first, 0), SIDE.get(last, 0)
        if abs(q0 - w0) > Decimal("1e-6") or abs(q1 - w1) > Decimal("1e-6"):
            sig = {"ff": ff, "kind": "cyclic-has-termini", "waters": "same-chain" if "cyclic+waters:same-chain" in feats else "other-chain", "drop": "--drop-water" in opts}
            kk = tuple(sorted(sig.items()))
            if kk not in seen:
                seen.add(kk)
                ctx.violate(sig, f"head-to-tail cyclic peptide ({' '.join(sorted(feats))}): first residue {aminos[0]} has charge {q0} (expected {w0}), last {aminos[-1]} has {q1} (expected {w1}): termini were applied", {"pdb": text, "options": opts, "ff": ff, "stage": "cyclic", "ends": [first, last]})

    def report(pr, replay):
        for sig, msg in pr:
            k = tuple(sorted(sig.items()))
            if k in seen:
                continue
            seen.add(k)
            ctx.violate(sig, msg, replay)

    reps = ctx.scale(1, 12)
    for _ in range(reps):
        for text, ff, opts, feats, strands in list(c01.nucleic_requests(rng)) + list(chimeric_requests(rng)):
            r = G.run_pipeline(text, opts)
            ctx.evaluations += 1
            ctx.count("strand-run", r.status)
            for f in feats:
                ctx.count("strand-features", f)
            ctx.distinct.add(("strand", ff, tuple(tuple(b) for _c, b in strands)))
            if r.status != "ok":
                report([({"ff": ff, "kind": "strand-run-failed", "strand": "chimeric" if "nucleic:chimeric" in feats else "plain"}, f"a complete nucleic-acid strand fails under {ff}: {r.status}: {str(r.exc)[:120]}")],
                       {"pdb": text, "options": opts, "ff": ff, "stage": "strand", "strands": strands})
                continue
            report(check_strands(ctx, ff, r, strands) + check_charges(ctx, ff, r), {"pdb": text, "options": opts, "ff": ff, "stage": "strand", "strands": strands})
    for i in range(ctx.scale(16, 400)):
        text, feats, request = gen_segments(rng)
        ff = ("AMBER", "PARSE", "CHARMM")[i % 3]
        opts = [f"--ff={ff}", "--whitespace"]
        r = G.run_pipeline(text, opts)
        ctx.evaluations += 1
        ctx.count("segment-run", r.status)
        for f in feats:
            ctx.count("segment-features", f)
        ctx.distinct.add(("segments", ff, tuple(sorted(feats))))
        if r.status != "ok":
            continue
        report(check_segments(ctx, ff, r, request), {"pdb": text, "options": opts, "ff": ff, "stage": "segments", "request": request})


def replay(ctx: Ctx, data: dict) -> bool:
    rp = data.get("replay", data)
    if rp.get("stage") == "cyclic":
        r = G.run_pipeline(rp["pdb"], rp["options"])
        print("status:", r.status, r.exc)
        if r.status != "ok":
            return False
        aminos = [x for x in r.biomolecule.residues if kind_of(x) == "a"]
        print(aminos[0], aminos[0].charge, aminos[-1], aminos[-1].charge)
        return abs(aminos[0].charge - SIDE.get(rp["ends"][0], 0)) > 1e-6 or abs(aminos[-1].charge - SIDE.get(rp["ends"][1], 0)) > 1e-6
    if rp.get("stage") in ("strand", "segments"):
        r = G.run_pipeline(rp["pdb"], rp["options"])
        print("status:", r.status, r.exc)
        if r.status != "ok":
            return rp["stage"] == "strand"
        pr = check_strands(ctx, rp["ff"], r, [tuple(x) for x in rp["strands"]]) if rp["stage"] == "strand" else check_segments(ctx, rp["ff"], r, rp["request"])
        for p in pr:
            print(p)
        return bool(pr)
    if rp.get("stage") == "set_termini":
        before, bits, after, bio = real_set_termini(rp["pdb"], rp["neutraln"], rp["neutralc"])
        pr = check_termini(after, bits, bio) if not isinstance(after, str) else [("error", after)]
    else:
        r = G.run_pipeline(rp["pdb"], rp["options"])
        print("status:", r.status, r.exc)
        if r.status != "ok":
            return False
        pr = check_charges(ctx, rp["ff"], r)
    for p in pr:
        print(p)
    return bool(pr)
