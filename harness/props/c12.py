"""C12 — runs succeed on well-formed input, otherwise fail loudly leaving no output.

Tie: the model is the regenerated call skeleton / write-open inventory of main.py
(gen/mainflow.py -> Gen/MainFlow.lean) on which the Lean theorems are kernel-checked.
Oracle: fault injection into every stage of that generated skeleton on the real code (output path
absent and pre-existing), natural failures, and the success side (complete peptides of every
residue type at every position x six force fields)."""

from __future__ import annotations

import os
import tempfile

import gen_struct as G
from core import REPO, Ctx, hexs
from props import c01

import gen.mainflow as genmainflow

GENERATORS = (genmainflow.generate,)
TRUSTED_BASE = [
    "Lean 4.33.0 kernel; axioms ⊆ {propext, Classical.choice, Quot.sound}",
    "translator gen/mainflow.py (call skeleton and every write-open of the package), regenerated every run",
    "the OS: a crash inside write() leaves a partial file (with open is not atomic) — named, not modelled",
]
ASSUMPTIONS = ["failures are raised as Python exceptions out of main_driver"]

# how a skeleton call name is patched on the real code: name -> (module, attribute path)
RESOLVE = {
    "transform_arguments": ("pdb2pqr.main", "transform_arguments"),
    "check_files": ("pdb2pqr.main", "check_files"),
    "check_options": ("pdb2pqr.main", "check_options"),
    "io.get_definitions": ("pdb2pqr.io", "get_definitions"),
    "io.get_molecule": ("pdb2pqr.io", "get_molecule"),
    "drop_water": ("pdb2pqr.main", "drop_water"),
    "setup_molecule": ("pdb2pqr.main", "setup_molecule"),
    "biomolecule.set_termini": ("pdb2pqr.biomolecule", "Biomolecule.set_termini"),
    "biomolecule.update_bonds": ("pdb2pqr.biomolecule", "Biomolecule.update_bonds"),
    "non_trivial": ("pdb2pqr.main", "non_trivial"),
    "print_pqr": ("pdb2pqr.main", "print_pqr"),
    "print_splash_screen": ("pdb2pqr.main", "print_splash_screen"),
    "io.print_pqr_header_cif": ("pdb2pqr.io", "print_pqr_header_cif"),
    "print_pdb": ("pdb2pqr.main", "print_pdb"),
    "io.dump_apbs": ("pdb2pqr.io", "dump_apbs"),
    "io.print_biomolecule_atoms": ("pdb2pqr.io", "print_biomolecule_atoms"),
    "forcefield.Forcefield": ("pdb2pqr.forcefield", "Forcefield.__init__"),
    "hydrogens.create_handler": ("pdb2pqr.hydrogens", "create_handler"),
    "debump.Debump": ("pdb2pqr.debump", "Debump.__init__"),
    "is_repairable": ("pdb2pqr.main", "is_repairable"),
    "biomolecule.repair_heavy": ("pdb2pqr.biomolecule", "Biomolecule.repair_heavy"),
    "biomolecule.update_ss_bridges": ("pdb2pqr.biomolecule", "Biomolecule.update_ss_bridges"),
    "debumper.debump_biomolecule": ("pdb2pqr.debump", "Debump.debump_biomolecule"),
    "biomolecule.remove_hydrogens": ("pdb2pqr.biomolecule", "Biomolecule.remove_hydrogens"),
    "run_propka": ("pdb2pqr.main", "run_propka"),
    "biomolecule.apply_pka_values": ("pdb2pqr.biomolecule", "Biomolecule.apply_pka_values"),
    "biomolecule.add_hydrogens": ("pdb2pqr.biomolecule", "Biomolecule.add_hydrogens"),
    "hydrogens.HydrogenRoutines": ("pdb2pqr.hydrogens", "HydrogenRoutines.__init__"),
    "hydrogen_routines.set_optimizeable_hydrogens": ("pdb2pqr.hydrogens", "HydrogenRoutines.set_optimizeable_hydrogens"),
    "biomolecule.hold_residues": ("pdb2pqr.biomolecule", "Biomolecule.hold_residues"),
    "hydrogen_routines.initialize_full_optimization": ("pdb2pqr.hydrogens", "HydrogenRoutines.initialize_full_optimization"),
    "hydrogen_routines.initialize_wat_optimization": ("pdb2pqr.hydrogens", "HydrogenRoutines.initialize_wat_optimization"),
    "hydrogen_routines.optimize_hydrogens": ("pdb2pqr.hydrogens", "HydrogenRoutines.optimize_hydrogens"),
    "hydrogen_routines.cleanup": ("pdb2pqr.hydrogens", "HydrogenRoutines.cleanup"),
    "biomolecule.set_states": ("pdb2pqr.biomolecule", "Biomolecule.set_states"),
    "biomolecule.apply_force_field": ("pdb2pqr.biomolecule", "Biomolecule.apply_force_field"),
    "noninteger_charge": ("pdb2pqr.main", "noninteger_charge"),
    "biomolecule.apply_name_scheme": ("pdb2pqr.biomolecule", "Biomolecule.apply_name_scheme"),
    "io.print_pqr_header": ("pdb2pqr.io", "print_pqr_header"),
    "biomolecule.set_hip": ("pdb2pqr.biomolecule", "Biomolecule.set_hip"),
    "ligand.assign_parameters": ("pdb2pqr.ligand.mol2", "Mol2Molecule.assign_parameters"),
}
IGNORE_PREFIX = ("_LOGGER.", "?.", "lig_atoms.", "missing_atoms.", "ValueError", "RuntimeError", "len", "float", "isinstance")
AFTER_PRINT = {"print_pdb", "io.dump_apbs"}


def skeleton():
    """stage names of main_driver and non_trivial from the generated model (re-derived here from the
    translator so that the harness and the Lean file see the same data)"""
    import ast

    tree = ast.parse((genmainflow.PKG / "main.py").read_text())
    fns = {n.name: n for n in tree.body if isinstance(n, ast.FunctionDef)}
    out = []
    for f in ("main_driver", "non_trivial"):
        info = genmainflow.analyse_function(fns[f])
        for _g, c in info.calls:
            if c.startswith(IGNORE_PREFIX) or c in ("open",):
                continue
            if (f, c) not in out:
                out.append((f, c))
    return out


def resolve(name):
    import importlib

    mod, path = RESOLVE[name]
    m = importlib.import_module(mod)
    obj = m
    parts = path.split(".")
    for p in parts[:-1]:
        obj = getattr(obj, p)
    return obj, parts[-1]


class Boom:
    def __init__(self, exc):
        self.exc = exc
        self.fired = False

    def __call__(self, *a, **k):
        self.fired = True
        raise self.exc("injected by the C12 harness")


def run_with_fault(text, options, stage, exc, preexisting: bool):
    """returns (fired, status, exception type name, path state)"""
    from pdb2pqr.main import build_main_parser, main_driver

    G.quiet()
    d = tempfile.mkdtemp(prefix="c12_")
    inp, out = os.path.join(d, "in.pdb"), os.path.join(d, "out.pqr")
    open(inp, "w").write(text)
    sentinel = "SENTINEL previous content\n"
    if preexisting:
        open(out, "w").write(sentinel)
        os.utime(out, (1_000_000_000, 1_000_000_000))
    holder, attr = resolve(stage)
    orig = getattr(holder, attr)
    boom = Boom(exc)
    setattr(holder, attr, boom)
    status, et = "ok", None
    try:
        try:
            args = build_main_parser().parse_args([*[o.replace("@DIR@", d) for o in options], "--log-level=CRITICAL", inp, out])
            main_driver(args)
        except Exception as e:  # noqa: BLE001
            status, et = "raised", type(e).__name__
    finally:
        setattr(holder, attr, orig)
    if not os.path.exists(out):
        state = "absent"
    else:
        content = open(out).read()
        if preexisting and content == sentinel and int(os.stat(out).st_mtime) == 1_000_000_000:
            state = "untouched"
        elif content.rstrip().endswith("END") or content.count("ATOM") > 0:
            state = "written" if "TER" in content or "ATOM" in content else "partial"
        elif content == "":
            state = "truncated"
        else:
            state = "modified"
    pqr = open(out).read() if os.path.exists(out) else None
    for fn in os.listdir(d):
        os.unlink(os.path.join(d, fn))
    os.rmdir(d)
    return boom.fired, status, et, state, pqr


def fault_injection(ctx: Ctx, n_inputs):
    rng = ctx.rng
    seen = set()
    stages = skeleton()
    unresolved = [c for _f, c in stages if c not in RESOLVE]
    if unresolved:
        # a stage the harness cannot reach is a gap in the exploration, reported as a broken tie
        ctx.disagree("generated skeleton vs injectable stages", {"stages": unresolved}, "every stage injectable", f"no patch target known for {unresolved}")
    for ii in range(n_inputs):
        _f, res = G.window(rng, rng.choice([3, 4]))
        G.set_chain(res, "A", 1)
        c = G.centroid(res)
        text = G.to_pdb([res], [G.water(rng, "A", 900, c, 8.0)])
        normal = G.run_pipeline(text, ["--ff=AMBER"])
        if normal.status != "ok":
            continue
        for _f, stage in stages:
            if stage not in RESOLVE:
                continue
            opts = ["--ff=AMBER", "--drop-water", "--pdb-output=@DIR@/o.pdb", "--apbs-input=@DIR@/a.in", "--ffout=CHARMM", "--include-header"]
            if stage in ("run_propka", "biomolecule.apply_pka_values", "biomolecule.remove_hydrogens"):
                opts += ["--titration-state-method=propka"]
            if stage == "biomolecule.set_hip":
                opts += ["--assign-only"]
            if stage == "hydrogen_routines.initialize_wat_optimization":
                opts += ["--noopt"]
            for exc in (ValueError, RuntimeError):
                for pre in (False, True):
                    fired, status, et, state, pqr = run_with_fault(text, opts, stage, exc, pre)
                    ctx.evaluations += 1
                    if not fired:
                        ctx.count("fault-injection", "stage-not-reached")
                        continue
                    ctx.distinct.add(("fault", stage, exc.__name__, pre))
                    ctx.count("fault-injection", f"{status}/{state}")
                    problem = None
                    if status != "raised":
                        problem = "failure-swallowed"
                    elif stage in AFTER_PRINT:
                        if state != "written":
                            problem = "pqr-not-complete-after-late-failure"
                    elif stage == "print_pqr":
                        pass  # the injected failure replaces the writer itself
                    elif (pre and state != "untouched") or (not pre and state != "absent"):
                        problem = f"output-{state}"
                    if problem:
                        sig = {"side": "failure", "stage": stage, "exception": exc.__name__, "problem": problem}
                        k = tuple(sig.items())
                        if k not in seen:
                            seen.add(k)
                            ctx.violate(sig, f"stage {stage} raising {exc.__name__} (output {'pre-existing' if pre else 'absent'}): run {status} ({et}), output path {state}", {"pdb": text, "options": opts, "stage": stage, "exception": exc.__name__, "preexisting": pre})
        if ii == 0:
            ctx.sample({"stages_injected": [c for _f, c in stages if c in RESOLVE]})


def natural_failures(ctx: Ctx):
    rng = ctx.rng
    _f, res = G.window(rng, 4)
    G.set_chain(res, "A", 1)
    good = G.to_pdb([res])
    bb_only = "\n".join(l for l in good.splitlines() if l[12:16].strip() in ("N", "CA", "C", "O", "CB")) + "\n"
    ca_missing = "\n".join(l for l in good.splitlines() if l[12:16].strip() != "CA") + "\n"
    water_only = G.to_pdb([], [G.water(rng, "A", 1, (0, 0, 0), 5.0)])
    lone = [[a.copy() for a in res[1]]]
    G.set_chain(lone, "A", 1)
    lone_text = G.to_pdb([lone])
    cases = [
        ("lone-residue(OXT missing = >10% of heavy atoms)", lone_text, ["--ff=AMBER"]),
        ("empty-file", "", ["--ff=AMBER"]),
        ("garbage", "this is not a PDB file\nat all\n", ["--ff=AMBER"]),
        ("waters-only", water_only, ["--ff=AMBER"]),
        ("backbone-only(>10% missing)", bb_only, ["--ff=AMBER"]),
        ("CA-missing", ca_missing, ["--ff=AMBER"]),
        ("ph-out-of-range", good, ["--ff=AMBER", "--with-ph=15", "--titration-state-method=propka"]),
        ("neutraln-without-parse", good, ["--ff=AMBER", "--neutraln"]),
        ("neutralc-without-parse", good, ["--ff=CHARMM", "--neutralc"]),
        ("userff-without-usernames", good, ["--userff=@DIR@/in.pdb"]),
        ("missing-userff", good, ["--userff=@DIR@/nope.dat", "--usernames=@DIR@/nope.names"]),
        ("missing-ligand", good, ["--ff=AMBER", "--ligand=@DIR@/nope.mol2"]),
    ]
    seen = set()
    for name, text, opts in cases:
        for pre in (False, True):
            d_state = run_natural(text, opts, pre)
            ctx.evaluations += 1
            ctx.distinct.add(("natural", name, pre))
            ctx.count("natural-failures", f"{name}:{d_state[0]}/{d_state[2]}")
            status, et, state = d_state
            problem = None
            if status == "ok":
                problem = "no-error" if not name.startswith("lone-residue") else lone_problem(text, opts)
            elif (pre and state != "untouched") or (not pre and state != "absent"):
                problem = f"output-{state}"
            if problem:
                sig = {"side": "failure", "trigger": name, "problem": problem}
                k = tuple(sig.items())
                if k not in seen:
                    seen.add(k)
                    ctx.violate(sig, f"{name}: run {status} ({et}), output path {state}", {"pdb": text, "options": opts, "trigger": name})


def guard_tie(ctx: Ctx, n):
    """utilities.noninteger_charge against the model (Float), on charges around every kind of total"""
    from pdb2pqr.utilities import noninteger_charge
    from props.c17 import bits

    rng = ctx.rng
    cs = []
    for _ in range(n):
        k = rng.randint(-12, 12)
        frac = rng.choice([0.0, 1e-4, 9.99e-4, 1.0e-3, 1.001e-3, 0.01, 0.1, 0.25, 0.334, 0.49, 0.5, 0.51, 0.7086, 0.84, 0.9, 0.99, 0.999, 0.9995, rng.random(), rng.random() * 1e-3])
        sign = rng.choice([1, -1])
        cs.append(sign * (abs(k) + frac))
    tols = [0.001] * len(cs)
    ans = ctx.driver.ask([f"charge.nonint\t{bits(float(c))}\t{bits(t)}" for c, t in zip(cs, tols)])
    for c, t, a in zip(cs, tols, ans):
        ctx.evaluations += 1
        real = bool(noninteger_charge(c, t))
        f = abs(c) - int(abs(c))
        ctx.count("charge-guard-fraction", "0" if f == 0 else "<tol" if f < 1e-3 or f > 1 - 1e-3 else "<0.5" if f < 0.5 else ">=0.5")
        ctx.distinct.add(("guard", c < 0, round(f, 3)))
        if (a == "1") != real:
            ctx.disagree("utilities.noninteger_charge", {"charge": c, "tol": t}, a == "1", real)


class _Counts:
    def __init__(self, heavy, missing):
        self.num_heavy, self.num_missing_heavy = heavy, missing


def real_gate(heavy, missing, lig):
    """main.is_repairable on a stand-in that carries the two counts it reads -> outcome label"""
    import logging

    from pdb2pqr import main as pmain

    seen = []

    class H(logging.Handler):
        def emit(self, record):
            seen.append(record.levelname.lower())

    h = H(level=logging.DEBUG)
    lg = pmain._LOGGER
    old_level, old_disable = lg.level, logging.root.manager.disable
    logging.disable(logging.NOTSET)
    lg.setLevel(logging.DEBUG)
    lg.addHandler(h)
    try:
        r = pmain.is_repairable(_Counts(heavy, missing), lig)
        out = "True" if r else "False:" + (seen[-1] if seen else "silent")
    except ValueError:
        out = "ValueError"
    finally:
        lg.removeHandler(h)
        lg.setLevel(old_level)
        logging.disable(old_disable)
    return out


def gate_tie(ctx: Ctx, n):
    """main.is_repairable against the model's repairGate on counts around the repair limit (theorem repair_gate_spec)"""
    rng = ctx.rng
    cases = [(0, 0, False), (0, 0, True), (0, 3, False), (10, 0, False), (10, 1, False), (10, 2, False), (100, 10, False), (100, 11, False), (108, 11, False), (1000, 100, True), (1000, 101, False), (1000, 104, False), (1000, 105, False)]
    for _ in range(n):
        heavy = rng.choice([rng.randint(1, 30), rng.randint(30, 400), rng.randint(400, 20000)])
        m0 = heavy // 10
        missing = max(0, rng.choice([0, 1, m0 - 1, m0, m0 + 1, m0 + 2, int(heavy * 0.104), int(heavy * 0.105) + 1, rng.randint(0, heavy)]))
        cases.append((heavy, missing, rng.random() < 0.2))
    ans = ctx.driver.ask([f"repair.gate\t{h}\t{m}\t{int(l)}" for h, m, l in cases])
    for (h, m, l), a in zip(cases, ans):
        ctx.evaluations += 1
        real = real_gate(h, m, l)
        band = "no-heavy" if h == 0 else "clean" if m == 0 else "<=0.1" if 10 * m <= h else "(0.1,0.105]" if 1000 * m <= 105 * h else ">0.105"
        ctx.count("repair-gate-band", band)
        ctx.distinct.add(("gate", band, l))
        if a != real:
            ctx.disagree("main.is_repairable (decision on the two counts)", {"num_heavy": h, "num_missing_heavy": m, "has_ligand": l}, a, real)


def option_gate_tie(ctx: Ctx):
    """main.check_files + main.check_options (called as main_driver calls them, on an argparse.Namespace) against the
    model's `gate` (theorem gate_accepts_iff_usable) on the WHOLE grid of requests: each file option absent / existing /
    missing, --ff {None, AMBER, PARSE, parse, Parse, CHARMM, an unknown name}, pH {-inf, <0, 0, 7, 14, >14, inf, nan},
    --neutraln, --neutralc"""
    import argparse
    import itertools
    import tempfile

    from pdb2pqr import main as pmain

    d = tempfile.mkdtemp(prefix="p2p_gate_")
    try:
        paths = {}
        for k in ("usernames", "userff", "ligand"):
            fn = os.path.join(d, k + ".txt")
            open(fn, "w").write("x\n")
            paths[k] = {"-": None, "1": fn, "0": os.path.join(d, k + ".absent")}
        ffs = [None, "AMBER", "PARSE", "parse", "Parse", "CHARMM", "NOSUCHFF"]
        phs = [("-inf", float("-inf")), ("-1", -0.001), ("0", 0.0), ("7000", 7.0), ("14000", 14.0), ("14001", 14.001), ("inf", float("inf")), ("nan", float("nan"))]
        grid = list(itertools.product("-10", "-10", ffs, "-10", phs, (False, True), (False, True)))
        reqs = []
        for un, uf, ff, lig, (pht, _phv), nn, nc in grid:
            dat = ff is not None and (REPO / "pdb2pqr" / "dat" / (ff.upper() + ".DAT")).exists()
            reqs.append(f"option.gate\t{un}\t{uf}\t{hexs(ff) if ff is not None else '-'}\t{int(dat)}\t{lig}\t{pht}\t{int(nn)}\t{int(nc)}")
        ans = ctx.driver.ask(reqs)
        marks = [("names file does not exist", "usernamesMissing"), ("forcefield file does not exist", "userffMissing"), ("--usernames must be specified", "userffWithoutUsernames"),
                 ("Unable to find ligand", "ligandMissing"), ("outside the range", "phRange"), ("--neutraln option", "neutralnNotParse"), ("--neutralc option", "neutralcNotParse")]
        for (un, uf, ff, lig, (pht, phv), nn, nc), a in zip(grid, ans):
            ns = argparse.Namespace(usernames=paths["usernames"][un], userff=paths["userff"][uf], ff=ff, ligand=paths["ligand"][lig], ph=phv, neutraln=nn, neutralc=nc)
            try:
                pmain.check_files(ns)
                pmain.check_options(ns)
                real = "pass"
            except Exception as e:  # noqa: BLE001
                msg = str(e)
                real = next((k for m, k in marks if m in msg), None) or ("ffDatMissing" if isinstance(e, FileNotFoundError) else f"other:{type(e).__name__}")
                # the wording of a message is not part of the property: what is compared is pass / refused and the
                # exception class of the first refusal (missing file: FileNotFoundError, unusable combination: RuntimeError)
                real_cls = type(e).__name__
            ctx.evaluations += 1
            ctx.count("option-gate", real)
            ctx.distinct.add(("option-gate", un, uf, ff, lig, pht, nn, nc))
            cls_of = {"pass": "pass", "usernamesMissing": "FileNotFoundError", "userffMissing": "FileNotFoundError", "ligandMissing": "FileNotFoundError", "ffDatMissing": "FileNotFoundError"}
            if cls_of.get(a, "RuntimeError") != ("pass" if real == "pass" else real_cls):
                ctx.disagree("main.check_files + main.check_options (first refusal)", {"usernames": un, "userff": uf, "ff": ff, "ligand": lig, "ph": pht, "neutraln": nn, "neutralc": nc}, a, real)
    finally:
        for fn in os.listdir(d):
            os.unlink(os.path.join(d, fn))
        os.rmdir(d)


def repair_limit_stream(ctx: Ctx, n):
    """peptides (12-16 residues) with outer side-chain atoms removed so that the missing fraction straddles the repair
    limit: the decision the run takes (is_repairable's return value, observed in the real run) must be the one the
    limit prescribes for the counts of that structure (10 * missing <= heavy), and a refused structure never gets
    its atoms rebuilt"""
    from pdb2pqr import biomolecule as bm
    from pdb2pqr import main as pmain

    rng = ctx.rng
    seen = set()
    for ci in range(n):
        # (from about 200 heavy atoms on, every structure has a missing count in the band (0.1, 0.105])
        _f, res = G.window(rng, rng.choice([10, 12, 14, 16]) if ci % 5 in (0, 4) else rng.choice([26, 28, 30, 34]))
        G.set_chain(res, "A", 1)
        # the counts the gate will see for the complete window (probe), then the number of atoms to remove for a
        # missing fraction just inside the limit / just over it / a little further
        probe = {}
        orig_gate0 = pmain.is_repairable

        def gate0(biomolecule, has_ligand):
            probe["counts"] = (biomolecule.num_heavy, biomolecule.num_missing_heavy)
            return orig_gate0(biomolecule, has_ligand)

        pmain.is_repairable = gate0
        try:
            G.run_pipeline(G.to_pdb([res]), ["--ff=AMBER", "--nodebump", "--noopt"])
        finally:
            pmain.is_repairable = orig_gate0
        if "counts" not in probe:
            continue
        heavy0, miss0 = probe["counts"]
        k = max(1, heavy0 // 10 - miss0 + [0, 1, 1, 2, -1][ci % 5])
        # remove k outer side-chain atoms, at most two per residue, never CB or backbone
        order = list(range(len(res)))
        rng.shuffle(order)
        left = k
        for rounds in range(2):
            for i in order:
                if left == 0:
                    break
                side = [a for a in res[i] if a.name not in ("N", "CA", "C", "O", "OXT", "CB")]
                if side and res[i][0].resn != "PRO":
                    res[i] = [a for a in res[i] if a is not side[-1]]
                    left -= 1
        text = G.to_pdb([res])
        seen_gate = {}
        orig_gate, orig_rep = pmain.is_repairable, bm.Biomolecule.repair_heavy

        def gate(biomolecule, has_ligand):
            seen_gate["counts"] = (biomolecule.num_heavy, biomolecule.num_missing_heavy)
            r = orig_gate(biomolecule, has_ligand)
            seen_gate["ret"] = bool(r)
            return r

        def rep(self_):
            seen_gate["repaired"] = True
            return orig_rep(self_)

        pmain.is_repairable, bm.Biomolecule.repair_heavy = gate, rep
        try:
            r = G.run_pipeline(text, [f"--ff={rng.choice(c01.FFS)}"] + rng.choice([[], ["--nodebump"], ["--noopt"]]))
        finally:
            pmain.is_repairable, bm.Biomolecule.repair_heavy = orig_gate, orig_rep
        ctx.evaluations += 1
        if "counts" not in seen_gate:
            ctx.count("repair-limit-stream", "gate not reached:" + r.status)
            continue
        heavy, missing = seen_gate["counts"]
        band = "clean" if missing == 0 else "<=0.1" if 10 * missing <= heavy else "(0.1,0.105]" if 1000 * missing <= 105 * heavy else ">0.105"
        ctx.count("repair-limit-stream", f"{band}:{r.status}")
        ctx.distinct.add(("repair-limit", band, r.status))
        want = missing > 0 and 10 * missing <= heavy
        if seen_gate.get("ret") != want or (seen_gate.get("repaired", False) and not want):
            sig = {"side": "failure", "trigger": "repair-limit", "problem": "treated-as-repairable" if not want else "refused-within-limit"}
            if tuple(sig.items()) not in seen:
                seen.add(tuple(sig.items()))
                ctx.violate(sig, f"{missing} of {heavy} heavy atoms missing ({missing / heavy:.4f}, limit 0.1): is_repairable returned {seen_gate.get('ret')}, repair_heavy {'ran' if seen_gate.get('repaired') else 'did not run'}; run {r.status}, output {'written' if r.pqr else 'not written'}", {"pdb": text, "options": [], "trigger": "repair-limit"})


def non_integral_totals(ctx: Ctx, n):
    """inputs whose charges cannot add up to an integer (hydrogen-free peptides under --assign-only,
    CA traces): whatever the fractional part, either the run fails and leaves the output path alone,
    or the PQR it writes has an integral total"""
    rng = ctx.rng
    seen = set()
    for ci in range(n):
        _f, res = G.window(rng, rng.choice([2, 3, 4, 5, 6, 8]))
        G.set_chain(res, "A", 1)
        text = G.to_pdb([res])
        kind = rng.choice(["assign-only", "ca-trace", "assign-only"])
        if kind == "ca-trace":
            text = "\n".join(l for l in text.splitlines() if l[12:16].strip() == "CA" or not l.startswith("ATOM")) + "\n"
            opts = [f"--ff={rng.choice(c01.FFS)}", "--nodebump", "--noopt"]
        else:
            opts = [f"--ff={rng.choice(c01.FFS)}", "--assign-only"]
        for pre in (False, True):
            status, et, state = run_natural(text, opts, pre, keep=True)
            ctx.evaluations += 1
            ctx.count("non-integral-stream", f"{kind}:{status}/{state[0] if isinstance(state, tuple) else state}")
            problem = None
            if status == "ok":
                total = state[1] if isinstance(state, tuple) else None
                if total is not None:
                    frac = abs(total - round(total))
                    ctx.distinct.add(("non-integral", kind, pre, round(frac, 2)))
                    if frac > 2e-3:
                        problem = "output-with-non-integral-total"
            elif (pre and state != "untouched") or (not pre and state != "absent"):
                problem = f"output-{state}"
            if problem:
                sig = {"side": "failure", "trigger": "non-integral-total", "problem": problem}
                k = tuple(sig.items())
                if k not in seen:
                    seen.add(k)
                    ctx.violate(sig, f"{kind} {opts}: run {status} ({et}), output {state}", {"pdb": text, "options": opts, "trigger": "non-integral-total"})


def lone_problem(text, opts):
    """a one-residue chain lacks OXT; the run may succeed only if it rebuilt it"""
    r = G.run_pipeline(text, opts)
    if r.status != "ok":
        return None
    names = [a.name for res in r.biomolecule.residues for a in res.atoms]
    return None if "OXT" in names else "declared-unrepairable-but-output-written"


def run_natural(text, opts, pre, keep=False):
    from pdb2pqr.main import build_main_parser, main_driver

    G.quiet()
    d = tempfile.mkdtemp(prefix="c12n_")
    inp, out = os.path.join(d, "in.pdb"), os.path.join(d, "out.pqr")
    open(inp, "w").write(text)
    sentinel = "SENTINEL previous content\n"
    if pre:
        open(out, "w").write(sentinel)
        os.utime(out, (1_000_000_000, 1_000_000_000))
    status, et = "ok", None
    try:
        args = build_main_parser().parse_args([*[o.replace("@DIR@", d) for o in opts], "--log-level=CRITICAL", inp, out])
        main_driver(args)
    except SystemExit as e:
        status, et = "raised", "SystemExit"
    except Exception as e:  # noqa: BLE001
        status, et = "raised", type(e).__name__
    if not os.path.exists(out):
        state = "absent"
    else:
        content = open(out).read()
        state = "untouched" if pre and content == sentinel and int(os.stat(out).st_mtime) == 1_000_000_000 else "written"
        if keep and state == "written":
            # total of the charge column of the file just written
            from decimal import Decimal

            tot = Decimal(0)
            for l in content.splitlines():
                if l.startswith(("ATOM", "HETATM")):
                    try:
                        tot += Decimal(l[54:62].strip())
                    except Exception:  # noqa: BLE001
                        tot = None
                        break
            state = ("written", float(tot) if tot is not None else None)
    for fn in os.listdir(d):
        os.unlink(os.path.join(d, fn))
    os.rmdir(d)
    return status, et, state


# ---------------------------------------------------------------------------------------------------------------
# refused requests: every refusal that main.py's own text documents for the argument stage (the argparse `choices=` /
# `type=` declarations of build_main_parser, the raise statements of check_files and check_options), crossed with the
# --ff values.  The oracle reads the request only: a request that contains one of these combinations must end in an
# exception / non-zero exit and the bytes (and mtime) at the output path must be what they were before the run.
REFUSAL_EXTRAS = (
    [], [], ["--nodebump"], ["--noopt"], ["--drop-water"], ["--keep-chain"], ["--whitespace"], ["--include-header"],
    ["--ffout=AMBER"], ["--ffout=CHARMM"], ["--pdb-output=@DIR@/o.pdb"], ["--apbs-input=@DIR@/a.in"], ["--nodebump", "--noopt"],
)


def builtin_ff_file(name):
    """text of a force-field data file shipped with the package (dat/<name>)"""
    import pdb2pqr

    return open(os.path.join(os.path.dirname(pdb2pqr.__file__), "dat", name), encoding="utf-8").read()


def user_ff_text(ffname):
    """a user force field compatible with --ff=<ffname>: the parameters of that force field under a user's header"""
    return f"# user-supplied parameter file (parameters of {ffname})\n" + builtin_ff_file(f"{ffname}.DAT")


def refused_requests_cases(rng):
    """(refusal, clause of main.py it comes from, options, {auxiliary file: text}) for every documented refusal x --ff"""
    cases = []
    ffs = [None, *c01.FFS]  # None = --ff left at its default

    def ffopt(ff):
        return [] if ff is None else [f"--ff={ff}"]

    for ff in ffs:
        own = ff or "PARSE"
        tag = ff or "default"
        # check_files: "--usernames must be specified if using --userff" — user file compatible with the --ff given ...
        cases.append((f"userff-without-usernames[{tag},user-ff={own}]", "check_files", [*ffopt(ff), "--userff=@DIR@/user.dat"], {"user.dat": user_ff_text(own)}))
        # ... and a user file of another family
        other = rng.choice([f for f in c01.FFS if f != own])
        cases.append((f"userff-without-usernames[{tag},user-ff={other}]", "check_files", [*ffopt(ff), "--userff=@DIR@/user.dat"], {"user.dat": user_ff_text(other)}))
        # check_files: "User-provided names file does not exist" (alone, and next to a usable --userff)
        cases.append((f"usernames-file-missing[{tag}]", "check_files", [*ffopt(ff), "--usernames=@DIR@/nope.names"], {}))
        cases.append((f"usernames-file-missing[{tag},with-userff]", "check_files", [*ffopt(ff), "--userff=@DIR@/user.dat", "--usernames=@DIR@/nope.names"], {"user.dat": user_ff_text(own)}))
        # check_files: "User-provided forcefield file does not exist" (with and without a usable --usernames)
        cases.append((f"userff-file-missing[{tag}]", "check_files", [*ffopt(ff), "--userff=@DIR@/nope.dat"], {}))
        cases.append((f"userff-file-missing[{tag},with-usernames]", "check_files", [*ffopt(ff), "--userff=@DIR@/nope.dat", "--usernames=@DIR@/user.names"], {"user.names": builtin_ff_file(f"{own}.names")}))
        # Forcefield.__init__: an unusable user parameter file - a row cut short (residue, atom, charge; radius missing),
        # here for a residue no structure contains, so that nothing downstream (the charge guard) can notice it
        cases.append((f"userff-truncated-row[{tag}]", "Forcefield.__init__", [*ffopt(ff), "--userff=@DIR@/user.dat", "--usernames=@DIR@/user.names"], {"user.dat": user_ff_text(own) + "XXX  Q1  0.5\n", "user.names": builtin_ff_file(f"{own}.names")}))
        # check_files: "Unable to find ligand file"
        cases.append((f"ligand-file-missing[{tag}]", "check_files", [*ffopt(ff), "--ligand=@DIR@/nope.mol2"], {}))
        cases.append((f"ligand-file-missing[{tag},with-userff]", "check_files", [*ffopt(ff), "--userff=@DIR@/user.dat", "--usernames=@DIR@/user.names", "--ligand=@DIR@/nope.mol2"], {"user.dat": user_ff_text(own), "user.names": builtin_ff_file(f"{own}.names")}))
        # check_options: "Specified pH is outside the range" (args.ph < 0 or args.ph > 14), with and without a titration method
        ph = rng.choice(["-0.01", "-1", "-7", "14.01", "15", "1e3", "inf", "-inf"])
        cases.append((f"ph-out-of-range[{tag},{ph}]", "check_options", [*ffopt(ff), f"--with-ph={ph}", *rng.choice([[], ["--titration-state-method=propka"]])], {}))
        # check_options: "--neutraln / --neutralc option only works with PARSE forcefield!"
        if own != "PARSE":
            for o in ("--neutraln", "--neutralc"):
                cases.append((f"{o[2:]}-without-parse[{tag}]", "check_options", [*ffopt(ff), o], {}))
            o = rng.choice(["--neutraln", "--neutralc"])
            cases.append((f"{o[2:]}-without-parse[{tag},with-userff]", "check_options", [*ffopt(ff), o, "--userff=@DIR@/user.dat", "--usernames=@DIR@/user.names"], {"user.dat": user_ff_text(own), "user.names": builtin_ff_file(f"{own}.names")}))
        # build_main_parser: values outside the declared choices / types
        bad = rng.choice([["--ffout=NOSUCHFF"], ["--titration-state-method=pdb2pka"], ["--with-ph=seven"], ["--with-ph="], ["--no-such-option"]])
        cases.append((f"argparse[{tag},{bad[0]}]", "build_main_parser", [*ffopt(ff), *bad], {}))
    for bad in (["--ff=NOSUCHFF"], ["--ff="], ["--ff=AMBER", "--ff=NOSUCHFF"], ["--ff=NOSUCHFF", "--userff=@DIR@/user.dat", "--usernames=@DIR@/user.names"]):
        files = {"user.dat": user_ff_text("AMBER"), "user.names": builtin_ff_file("AMBER.names")} if len(bad) == 3 else {}
        cases.append((f"argparse[{' '.join(b.replace('@DIR@/', '') for b in bad)}]", "build_main_parser", bad, files))
    return cases


def run_request(text, opts, files, pre):
    """one command-line request (options, input file, auxiliary files, state of the output path) through the real
    parser and main_driver -> (status, exception type, state of the output path compared byte for byte with before)"""
    import contextlib
    import io as _io
    import shutil

    from pdb2pqr.main import build_main_parser, main_driver

    G.quiet()
    d = tempfile.mkdtemp(prefix="c12r_")
    inp, out = os.path.join(d, "in.pdb"), os.path.join(d, "out.pqr")
    open(inp, "w").write(text)
    for fn, content in files.items():
        with open(os.path.join(d, fn), "w", encoding="utf-8") as f:
            f.write(content)
    sentinel = b"SENTINEL previous content\n"
    if pre:
        open(out, "wb").write(sentinel)
        os.utime(out, (1_000_000_000, 1_000_000_000))
    status, et = "ok", None
    try:
        with contextlib.redirect_stderr(_io.StringIO()), contextlib.redirect_stdout(_io.StringIO()):
            try:
                args = build_main_parser().parse_args([*[o.replace("@DIR@", d) for o in opts], "--log-level=CRITICAL", inp, out])
                main_driver(args)
            except SystemExit as e:
                code = e.code
                status, et = ("raised", f"SystemExit({code})") if code not in (0, None) else ("ok", "SystemExit(0)")
            except Exception as e:  # noqa: BLE001
                status, et = "raised", type(e).__name__
        if not os.path.exists(out):
            state = "absent"
        else:
            content = open(out, "rb").read()
            if pre and content == sentinel and int(os.stat(out).st_mtime) == 1_000_000_000:
                state = "untouched"
            elif content == b"":
                state = "truncated" if pre else "created-empty"
            else:
                state = "overwritten" if pre else "created"
    finally:
        shutil.rmtree(d, ignore_errors=True)
    return status, et, state


def refused_problem(status, state, pre):
    problems = []
    if status != "raised":
        problems.append("no-error")
    if (pre and state != "untouched") or (not pre and state != "absent"):
        problems.append(f"output-{state}")
    return "+".join(problems) if problems else None


def refused_requests(ctx: Ctx):
    """unusable option / file combinations: each must be refused, with the output path byte-identical to before"""
    rng = ctx.rng
    _f, res = G.window(rng, rng.choice([3, 4]))
    G.set_chain(res, "A", 1)
    text = G.to_pdb([res])
    seen = set()
    for name, clause, opts, files in refused_requests_cases(rng):
        opts = [*opts, *rng.choice(REFUSAL_EXTRAS)]
        kind = name.split("[")[0]
        for pre in (False, True):
            status, et, state = run_request(text, opts, files, pre)
            ctx.evaluations += 1
            ctx.distinct.add(("refused", name, pre))
            ctx.count("refused-requests", f"{clause}:{kind}:{status}/{state}")
            problem = refused_problem(status, state, pre)
            if problem:
                sig = {"side": "failure", "trigger": "refused-request", "refusal": kind, "clause": clause, "problem": problem}
                k = tuple(sig.items())
                if k not in seen:
                    seen.add(k)
                    ctx.violate(
                        sig,
                        f"{name} (options {' '.join(opts)}; output {'pre-existing' if pre else 'absent'}): {clause} documents a refusal, run {status} ({et}), output path {state}",
                        {"pdb": text, "options": opts, "files": files, "trigger": "refused-request", "refusal": name, "preexisting": pre},
                    )
    ctx.sample({"refused_request_kinds": sorted({k.split(":")[1] for k in ctx.distribution.get("refused-requests", {})})})


def success_side(ctx: Ctx, n):
    rng = ctx.rng
    seen = set()
    for ci in range(n):
        must = G.AA3[ci % len(G.AA3)]
        for _ in range(60):
            _f, res = G.window(rng, rng.choice([3, 4, 6]), must_have=must)
            if side_chains_complete(res):
                break
        G.set_chain(res, "A", 1)
        c = G.centroid(res)
        waters = [G.water(rng, "A", 900, c, 9.0)] if rng.random() < 0.3 else []
        text = G.to_pdb([res], waters)
        for ff in c01.FFS:
            r = G.run_pipeline(text, [f"--ff={ff}"])
            ctx.evaluations += 1
            first, last = res[0][0].resn, res[-1][0].resn
            ctx.distinct.add(("success", ff, first, last))
            ctx.count("success-side", f"{ff}:{r.status}")
            if r.status != "ok":
                msg = str(r.exc.__cause__ or r.exc)[:120]
                sig = {"side": "success", "ff": ff, "first": first, "last": last, "error": "charge" if "integral" in msg else msg[:40]}
                # attribute to the cell: does the failure persist with the first / last residue removed?
                cell = attribute(text, res, ff)
                sig = {"side": "success", "ff": ff, "cell": cell, "error": "non-integral-total" if "integral" in msg else msg[:40]}
                k = tuple(sig.items())
                if k not in seen:
                    seen.add(k)
                    ctx.violate(sig, f"complete peptide {[r0[0].resn for r0 in res]} fails under {ff}: {msg}", {"pdb": text, "options": [f"--ff={ff}"]})


def nucleic_success_side(ctx: Ctx, reps):
    """'complete standard ... nucleotide residues and waters ... every built-in force field that defines those residue
    classes': synthesised DNA / RNA strands (every base at the 5' end, in the middle and at the 3' end) under every force
    field whose data define the nucleotides (the model's nucleotide_table_coverage: AMBER, CHARMM, TYL06; PARSE for RNA)"""
    rng = ctx.rng
    seen = set()
    for _ in range(reps):
        for text, ff, opts, feats, strands in c01.nucleic_requests(rng):
            r = G.run_pipeline(text, [f"--ff={ff}"])
            ctx.evaluations += 1
            kind = "DNA" if "nucleic:D" in feats else "RNA"
            ctx.distinct.add(("success-nucleic", ff, kind, tuple(tuple(b) for _c, b in strands)))
            ctx.count("success-side", f"{ff} {kind} strands:{r.status}")
            if r.status != "ok":
                msg = str(r.exc.__cause__ or r.exc)[:120]
                ends = ",".join(sorted({b[0] + "5" for _c, b in strands} | {b[-1] + "3" for _c, b in strands}))
                sig = {"side": "success", "ff": ff, "cell": f"{kind} strand", "error": "non-integral-total" if "integral" in msg else msg[:40]}
                k = tuple(sig.items())
                if k not in seen:
                    seen.add(k)
                    ctx.violate(sig, f"complete {kind} strands {[b for _c, b in strands]} (ends {ends}) fail under {ff}: {msg}", {"pdb": text, "options": [f"--ff={ff}"]})


_heavy = None


def side_chains_complete(res):
    """every heavy atom of every residue's definition is present (the offline structures contain
    truncated side chains; with OXT missing as well a small peptide then exceeds is_repairable's 10%)"""
    global _heavy
    if _heavy is None:
        from pdb2pqr import io as pio

        d = pio.get_definitions()
        _heavy = {n: {a for a in r.map if not a.startswith("H")} for n, r in d.map.items()}
    return all(_heavy.get(r[0].resn, set()) <= {a.name for a in r} for r in res)


def neutral_termini_side(ctx: Ctx, n):
    """PARSE supports neutral termini: a complete peptide must also succeed with --neutraln / --neutralc,
    whatever residue type sits at the neutralised end"""
    rng = ctx.rng
    seen = set()
    for ci in range(n):
        must = G.AA3[ci % len(G.AA3)]
        opt = ("--neutralc", -1) if (ci // len(G.AA3)) % 2 == 0 else ("--neutraln", 0)
        for _ in range(60):
            _f, res = G.window(rng, 3, must_have=must)
            if res[opt[1]][0].resn == must and side_chains_complete(res):
                break
        else:
            continue
        G.set_chain(res, "A", 1)
        text = G.to_pdb([res])
        r = G.run_pipeline(text, ["--ff=PARSE", opt[0]])
        ctx.evaluations += 1
        ctx.distinct.add(("success-neutral", opt[0], must))
        ctx.count("success-side", f"PARSE {opt[0]}:{r.status}")
        if r.status != "ok":
            msg = str(r.exc.__cause__ or r.exc)[:120]
            sig = {"side": "success", "ff": "PARSE", "cell": ("C" if opt[1] == -1 else "N") + f"-terminal {must}", "option": opt[0], "error": "non-integral-total" if "integral" in msg else msg[:40]}
            k = tuple(sig.items())
            if k not in seen:
                seen.add(k)
                ctx.violate(sig, f"complete peptide {[r0[0].resn for r0 in res]} fails under PARSE {opt[0]}: {msg}", {"pdb": text, "options": ["--ff=PARSE", opt[0]]})


def attribute(text, res, ff, extra_opts=()):
    """which residue makes a complete peptide fail the total-charge check: run once more with the guard
    switched off (from the harness) and look for the residue whose own charge is not integral"""
    from pdb2pqr import main as pmain

    orig = pmain.noninteger_charge
    pmain.noninteger_charge = lambda *a, **k: ""
    try:
        r = G.run_pipeline(text, [f"--ff={ff}", *extra_opts])
    finally:
        pmain.noninteger_charge = orig
    if r.status == "ok":
        bad = []
        for x in r.biomolecule.residues:
            q = x.charge
            if abs(q - round(q)) > 1e-3:
                pos = "N-terminal" if getattr(x, "is_n_term", 0) else "C-terminal" if getattr(x, "is_c_term", 0) else "internal"
                bad.append(f"{pos} {x.name}")
        if len(set(bad)) == 1:
            return bad[0]
        if bad:
            return " + ".join(sorted(set(bad)))
    return f"{res[0][0].resn}...{res[-1][0].resn}"


def run(ctx: Ctx):
    ctx.extra["rule"] = (
        "fault injection: every stage of the generated main_driver / non_trivial skeleton x {ValueError, RuntimeError} x output path {absent, pre-existing}; natural failures (11 triggers x 2 path states); "
        "charge guard: noninteger_charge vs the model on charges with every kind of fractional part; hydrogen-free peptides under --assign-only and CA traces (totals that cannot be integral): fail and leave the path alone, or write an integral total; "
        "PARSE with --neutralc / --neutraln and each residue type at the neutralised end; success side: complete peptide windows with each of the 20 residue types forced in turn x six force fields, and synthesised DNA / RNA strands (every base at 5' / middle / 3') x every force field that defines the nucleotides; a case is (stage, exception, path state) / (trigger, path state) / (ff, first, last residue); distinct counts distinct tuples; "
        "refused requests: every refusal in the text of build_main_parser (choices / types), check_files (--userff without --usernames with a user file compatible with the --ff given and one of another family, "
        "missing --usernames / --userff / --ligand file) and check_options (pH outside [0, 14], --neutraln / --neutralc without PARSE) x {--ff omitted, six --ff values} x output path {absent, pre-existing}: the run must raise / exit non-zero and the output path must be byte-identical to before"
    )
    fault_injection(ctx, ctx.scale(1, 6))
    natural_failures(ctx)
    guard_tie(ctx, ctx.scale(400, 20000))
    gate_tie(ctx, ctx.scale(300, 10000))
    option_gate_tie(ctx)
    repair_limit_stream(ctx, ctx.scale(10, 200))
    non_integral_totals(ctx, ctx.scale(12, 400))
    success_side(ctx, ctx.scale(20, 600))
    neutral_termini_side(ctx, ctx.scale(40, 400))
    nucleic_success_side(ctx, ctx.scale(1, 10))
    # (last, so that the inputs drawn by the streams above stay what they were)
    refused_requests(ctx)


def replay(ctx: Ctx, data: dict) -> bool:
    rp = data.get("replay", data)
    if "stage" in rp:
        import builtins

        exc = getattr(builtins, rp["exception"])
        print(run_with_fault(rp["pdb"], rp["options"], rp["stage"], exc, rp["preexisting"])[:4])
        return True
    if rp.get("trigger") == "refused-request":
        status, et, state = run_request(rp["pdb"], rp["options"], rp.get("files", {}), rp["preexisting"])
        print("refused request", rp.get("refusal"), "->", status, et, "output path", state)
        return refused_problem(status, state, rp["preexisting"]) is not None
    r = G.run_pipeline(rp["pdb"], rp["options"])
    print("status:", r.status, r.exc)
    return r.status != "ok" if "trigger" not in rp else r.status == "ok"
