"""C01 — assigned charges and radii are exactly the selected force field's parameters.

Tie: (a) the six built-in maps built by the Lean model from the generated DAT rows / .names
sections / canonical names vs the real Forcefield(...).map, exhaustively; the SAX handler's view
of each section vs the translator's; (b) generated parameter/.names pairs through the real
Forcefield(userff, usernames) vs the model; (c) end to end: generated structures through the real
main_driver, every atom's assigned parameters / hit-or-miss / PQR columns vs the model's
state naming + lookup."""

from __future__ import annotations

import os
import random
import re
import tempfile
from decimal import Decimal

import gen_struct as G
from core import Ctx, hexs, unhexs

import gen.ff as genff
import gen.topology as gentopo

GENERATORS = (gentopo.generate, genff.generate)
TRUSTED_BASE = [
    "Lean 4.33.0 kernel; axioms ⊆ {propext, Classical.choice, Quot.sound}",
    "translators gen/ff.py (DAT rows, .names sections, Python regex -> Regex AST via re._parser) and gen/topology.py (canonical names), regenerated every run; their output is cross-checked against the real Forcefield/Definition objects exhaustively",
    "hand-written models lean/P2P/Model/{Regex,FF,State}.lean tied to forcefield.py / aa.py / na.py / biomolecule.py by differential execution",
    "expat/SAX (the handler's view of every section is compared with the etree view each run)",
    "float(text) applied by the harness to the model's exact decimals",
]
ASSUMPTIONS = ["parameter files within the documented decimal grammar", "agreement observed only on generated inputs (built-in maps: exhaustive)"]
FFS = ["AMBER", "CHARMM", "PARSE", "PEOEPB", "SWANSON", "TYL06"]

_defn = None


def definition():
    global _defn
    if _defn is None:
        from pdb2pqr import io as pio

        _defn = pio.get_definitions()
    return _defn


def dec(x: str) -> float:
    n, m, e = x.split(":")
    v = float(f"{m}e{e}")
    return -v if n == "1" else v


def parse_map(ans: str):
    mm = {}
    if not ans:
        return mm
    for it in ans.split(";"):
        k, an, q, r, nres, nat, grp, rname = it.split(",")
        mm[(unhexs(k), unhexs(an))] = (dec(q), dec(r), unhexs(nres), unhexs(nat), unhexs(grp), unhexs(rname))
    return mm


def real_map(ff):
    rm = {}
    for k, res in ff.map.items():
        for an, a in res.atoms.items():
            rm[(k, an)] = (a.charge, a.radius, a.resname, a.name, a.group, res.name)
    return rm


def first_map_diff(mm, rm):
    for k in rm:
        if mm.get(k) != rm[k]:
            return {"key": k, "model": mm.get(k), "impl": rm[k]}
    for k in mm:
        if k not in rm:
            return {"key": k, "model": mm[k], "impl": None}
    if list(mm) != list(rm):
        return {"key": "order", "model": list(mm)[:5], "impl": list(rm)[:5]}
    return None


# ------------------------------------------------------------------ (a)


def tie_builtin(ctx: Ctx):
    from pdb2pqr import forcefield

    # SAX handler's view of the sections
    seen = []
    orig = forcefield.ForcefieldHandler.endElement

    def wrapped(self, name):
        if name == "residue":
            seen.append((self.newresname, self.oldresname, list(self.atommap.items())))
        return orig(self, name)

    for ffn in FFS:
        seen.clear()
        forcefield.ForcefieldHandler.endElement = wrapped
        try:
            real = forcefield.Forcefield(ffn.lower(), definition(), None)
        finally:
            forcefield.ForcefieldHandler.endElement = orig
        etree_view = genff.read_names(genff.DAT / f"{ffn}.names")
        ctx.evaluations += 1
        if [tuple(s) for s in seen] != [tuple(s) for s in etree_view]:
            i = next((i for i, (a, b) in enumerate(zip(seen, etree_view)) if tuple(a) != tuple(b)), min(len(seen), len(etree_view)))
            ctx.disagree("names sections (SAX handler vs translator)", {"ff": ffn, "index": i}, str(etree_view[i : i + 1]), str(seen[i : i + 1]))
        ctx.count("sections", ffn, len(seen))
        if ctx.driver.available():
            mm = parse_map(ctx.driver.ask([f"ff.dump\t{hexs(ffn)}"])[0])
            rm = real_map(real)
            ctx.count("map-entries", ffn, len(rm))
            for k in list(rm)[:: max(1, len(rm) // 40)]:
                ctx.distinct.add(("map", ffn, k[0]))
            d = first_map_diff(mm, rm)
            if d is not None:
                ctx.disagree("Forcefield.map (built-in)", {"ff": ffn}, str(d["model"]), f"{d['key']}: {d['impl']}")
    # canonical names
    if ctx.driver.available():
        canon = [unhexs(x) for x in ctx.driver.ask(["ff.canon"])[0].split(",")]
        if canon != list(definition().map.keys()):
            ctx.disagree("Definition.map keys", {}, str(canon[:10]), str(list(definition().map.keys())[:10]))
    # regex matcher on every pattern x every canonical name
    pats = set()
    for ffn in FFS:
        for pat, _use, _atoms in genff.read_names(genff.DAT / f"{ffn}.names"):
            pats.add(pat + "$")
    for p in gentopo.definitions().patchlist:
        if p.newname:
            pats.add(p.applyto)
    import re

    names = list(definition().map.keys()) + ["", "N", "NALAX", "nala", "C", "HI", "HIPP"]
    reqs, exp = [], []
    for p in sorted(pats):
        toks = " ".join(genff.re_tokens(genff.re_ast(p)))
        for n in names:
            reqs.append(f"re.match\t{toks}\t{hexs(n)}")
            m = re.compile(p).match(n)
            exp.append("-" if not m else "+" + ",".join(hexs(g or "") for g in m.groups()))
    if ctx.driver.available():
        ans = ctx.driver.ask(reqs)
        ctx.evaluations += len(reqs)
        ctx.count("regex-matches", "total", len(reqs))
        bad = [(r, a, e) for r, a, e in zip(reqs, ans, exp) if a != e]
        if bad:
            ctx.disagree("re.match (pattern x canonical name)", {"request": bad[0][0]}, bad[0][1], bad[0][2])


# ------------------------------------------------------------------ (b)

PAT_TEMPLATES = ["{A}", "N...$", "C(...)$", "[NC]?(?!{A}$)...$", "[NC]?(?!{A}$|{B}$)...$", "HI([PDE])$", "N(?!PRO$)...$", "..[^35]$", "{A}|{B}", "[NC]?{A}", "NEUTRAL-N(...)$", "(...)$", "[RD][ACGTU][35]?$"]


def gen_pair(rng: random.Random):
    """a parameter file and a .names file in the documented formats (mostly valid)"""
    resn = rng.sample(["ALA", "GLY", "HIS", "HSD", "ASP", "ASPP", "BKN", "NTER", "CTER", "WAT", "H2O", "PRO", "CYS", "CSS", "LIG", "NALA", "CALA"], rng.randint(3, 8))
    atomn = ["N", "CA", "C", "O", "H", "H1", "H2", "H3", "HA", "CB", "OXT", "OW", "HW", "HB1", "HB2", "HB3", "OD1", "HD1", "HE2"]
    lines = []
    feats = set()
    if rng.random() < 0.5:
        lines.append("# comment line\n")
        feats.add("comment")
    body = []  # (line text, (res, atom, charge text, radius text, group)) in file order
    for r in resn:
        for a in rng.sample(atomn, rng.randint(1, 6)):
            q = rng.choice([f"{rng.uniform(-1, 1):.4f}", f"{rng.uniform(-1, 1):.3f}", "0", "-0.5", "+0.25", "1e-1", ".5", "5."])
            rad = rng.choice([f"{rng.uniform(0, 2.5):.4f}", "1.5", "0.0000", "2"])
            sep = rng.choice([" ", "\t", "   "])
            grp = [rng.choice(["N3", "CT", "HO"])] if rng.random() < 0.5 else []
            row = sep.join([r, a, q, rad] + grp)
            body.append((rng.choice(["", " "]) + row + rng.choice(["\n", " \n", "\r\n"]), (r, a, q, rad, grp[0] if grp else "")))
            if rng.random() < 0.05:
                body.append(("\n", None))
                feats.add("blank")
            if rng.random() < 0.05:
                q2 = f"{rng.uniform(-1, 1):.4f}"
                body.append((sep.join([r, a, q2, "1.0000"]) + "\n", (r, a, q2, "1.0000", "")))  # duplicate: last wins
                feats.add("duplicate-row")
    if rng.random() < 0.3:
        # the format is line based: the rows of one residue need not be contiguous
        how = rng.choice(["shuffle", "move-one", "interleave"])
        if how == "shuffle":
            rng.shuffle(body)
        elif how == "move-one" and len(body) > 2:
            body.insert(rng.randrange(len(body)), body.pop(rng.randrange(len(body))))
        else:
            body = body[::2] + body[1::2]
        feats.add("rows-not-grouped-by-residue")
    lines += [t for t, _ in body]
    gen_pair.last_rows = [r for _, r in body if r is not None]
    r = rng.random()
    if r < 0.03:
        lines.insert(rng.randrange(len(lines) + 1), "ALA N x 1.0\n")
        feats.add("bad-number")
    elif r < 0.05:
        lines.insert(rng.randrange(len(lines) + 1), "ALA N 0.1\n")
        feats.add("short-row")
    elif r < 0.06:
        lines.insert(rng.randrange(len(lines) + 1), "ALA\n")
        feats.add("one-field")
    # sections
    sections = []
    for _ in range(rng.choice([0, 0, 0, 1, 2, 3, 4, 6])):
        A, B = rng.sample(["ALA", "GLY", "HIS", "PRO", "ASP", "CYS", "WAT", "ILE"], 2)
        pat = rng.choice(PAT_TEMPLATES).format(A=A, B=B)
        use = None
        r = rng.random()
        if r < 0.35:
            use = rng.choice(resn * 3 + ["MISSING"])
            feats.add("useresname")
        elif r < 0.55 and re.compile(pat).groups >= 1:
            use = rng.choice(["$group", "HS$group", "N$group", "$groupP"])
            feats.add("$group")
        atoms = {}
        for _ in range(rng.choice([0, 0, 1, 2, 3])):
            atoms[rng.choice(atomn)] = rng.choice(atomn)
        if atoms:
            feats.add("atom-aliases")
        sections.append((pat, use, list(atoms.items())))
    xml = ["<?xml version='1.0'?>", "<patches>"]
    for pat, use, atoms in sections:
        xml.append("  <residue>")
        xml.append(f"    <name>{pat.replace('&', '&amp;').replace('<', '&lt;')}</name>")
        if use is not None:
            xml.append(f"    <useresname>{use}</useresname>")
        for a, b in atoms:
            xml.append(f"    <atom><name>{a}</name><useatomname>{b}</useatomname></atom>")
        xml.append("  </residue>")
    xml.append("</patches>")
    return "".join(lines), "\n".join(xml) + "\n", sections, feats


def tie_pairs(ctx: Ctx, n: int):
    from pdb2pqr import forcefield

    rng = ctx.rng
    canon = list(definition().map.keys())
    d = tempfile.mkdtemp(prefix="c01_")
    try:
        reqs, impl = [], []
        for i in range(n):
            dat, names, sections, feats = gen_pair(rng)
            dp, np_ = os.path.join(d, "u.DAT"), os.path.join(d, "u.names")
            open(dp, "w", newline="").write(dat)
            open(np_, "w").write(names)
            try:
                ff = forcefield.Forcefield("user", definition(), dp, np_)
                res = real_map(ff)
            except (ValueError, IndexError, KeyError) as e:
                res = type(e).__name__
            impl.append((dat, names, res, feats))
            # independent oracle when there is no names section: the map is exactly "last row per (residue, atom)"
            if not sections and isinstance(res, dict) and not ({"bad-number", "short-row", "one-field"} & feats):
                want = {}
                for r_, a_, q_, rad_, g_ in gen_pair.last_rows:
                    want[(r_, a_)] = (float(q_), float(rad_), r_, a_)
                got = {k: (v[0], v[1], v[2], v[3]) for k, v in res.items()}
                if got != want:
                    bad = next((k for k in want if got.get(k) != want[k]), None) or next(k for k in got if k not in want)
                    ctx.violate({"kind": "user-parameter-file", "what": "entry-lost" if bad not in got else "wrong-value" if bad in want else "entry-invented", "grouped": "rows-not-grouped-by-residue" not in feats},
                                f"parameter file row {bad}: the file gives {want.get(bad)}, the loaded force field answers {got.get(bad)}", {"dat": dat, "names": names, "key": list(bad)})
            try:
                enc = ";".join(" ".join(genff.re_tokens(genff.re_ast(p + "$"))) + "|" + ("~" if u is None else hexs(u)) + "|" + ",".join(f"{hexs(a)}={hexs(b)}" for a, b in at) for p, u, at in sections)
            except genff.Unsupported:
                enc = None
            import io

            dlines = io.StringIO(dat, newline=None).readlines()
            reqs.append(None if enc is None else f"ff.build\t{';'.join(hexs(l) for l in dlines)}\t{enc}\t{','.join(hexs(c) for c in canon)}")
        ans = ctx.driver.ask([r for r in reqs if r is not None]) if ctx.driver.available() else None
        j = 0
        for (dat, names, res, feats), rq in zip(impl, reqs):
            ctx.evaluations += 1
            ctx.distinct.add(("pair", tuple(sorted(feats)), res if isinstance(res, str) else "ok"))
            ctx.count("pairs-outcome", res if isinstance(res, str) else "ok")
            if rq is None or ans is None:
                continue
            a = ans[j]
            j += 1
            if a in ("ValueError", "IndexError", "KeyError"):
                if a != res:
                    ctx.disagree("Forcefield(userff, usernames) error class", {"dat": dat, "names": names}, a, res if isinstance(res, str) else "ok")
            elif isinstance(res, str):
                ctx.disagree("Forcefield(userff, usernames) error class", {"dat": dat, "names": names}, "ok", res)
            else:
                dd = first_map_diff(parse_map(a), res)
                if dd is not None:
                    ctx.disagree("Forcefield(userff, usernames).map", {"dat": dat, "names": names}, str(dd["model"]), f"{dd['key']}: {dd['impl']}")
    finally:
        for fn in os.listdir(d):
            os.unlink(os.path.join(d, fn))
        os.rmdir(d)


# ------------------------------------------------------------------ (b')
# Names sections whose <name> is related, as a string, to OTHER names it must not touch: a plain
# <name> denotes exactly that canonical residue name (forcefield.py anchors it with an implicit
# '$'; the match starts at the first character), although it may be a proper prefix / suffix /
# interior substring of other canonical names (DA < DA5, ALA < NALA, RA < NEUTRAL-CALA) or of
# residue names of the user's own parameter file (ADE < ADE5).  The expected map is computed by an
# oracle that reads only the two files and the canonical names.

PLAIN_NAME = re.compile(r"[A-Za-z0-9'*\-]+\Z")
REL_TEMPLATES = ["{S}$", "{S}.?$", "{S}[35]?$", "[NC]?{S}$", "{S}([35])$", "([NC]){S}$", "[NC]?{S}"]
NATIVE_ATOMS = ["P", "O1P", "O2P", "O5'", "C5'", "H5'1", "H5'2", "N", "CA", "HN", "OH2", "HT1", "C", "O"]
CANON_ATOMS = ["H5'", "H5''", "OP1", "OP2", "H", "OW", "H1", "O", "CA", "N"]
_relations = None


def name_relations(names):
    """{relation: {short: [long, ...]}}: short is a proper prefix / proper suffix / interior substring of long"""
    rel = {"prefix": {}, "suffix": {}, "substring": {}}
    for s in names:
        for l in names:
            if s == l or s not in l:
                continue
            if l.startswith(s):
                rel["prefix"].setdefault(s, []).append(l)
            if l.endswith(s):
                rel["suffix"].setdefault(s, []).append(l)
            if s in l[1:-1]:
                rel["substring"].setdefault(s, []).append(l)
    return rel


def parse_dat_text(text: str):
    """rows of a parameter file in the documented format (docs/source/formats/dat.rst), in file order"""
    rows = []
    for line in text.splitlines():
        if line.startswith("#"):
            continue
        f = line.split()
        if not f:
            continue
        rows.append((f[0], f[1], float(f[2]), float(f[3]), f[4] if len(f) > 4 else ""))
    return rows


def parse_names_text(text: str):
    """sections of a .names file (docs/source/formats/xml-names.rst): (name, useresname or None, [(name, useatomname)])"""
    import xml.etree.ElementTree as ET

    sections = []
    for res in ET.fromstring(text):
        name = use = None
        atoms = {}
        for ch in res:
            if ch.tag == "name":
                name = ch.text
            elif ch.tag == "useresname":
                use = ch.text
            elif ch.tag == "atom":
                atoms[ch.findtext("name")] = ch.findtext("useatomname")
        sections.append((name, use, list(atoms.items())))
    return sections


def names_matches(pat: str, names):
    """the names a section's <name> denotes, in the order of `names`: a plain name denotes itself only;
    a regular expression is matched from the first character with the implicit end anchor"""
    if PLAIN_NAME.match(pat):
        return [(n, None) for n in names if n == pat]
    rx = re.compile(pat + "$")
    out = []
    for n in names:
        m = rx.match(n)
        if m:
            out.append((n, m))
    return out


def expected_map(dat: str, names: str, canon):
    """independent oracle: the documented reading of a parameter file + names file.
    -> {(residue key, atom key): (charge, radius, native residue, native atom, group, residue object's name)}"""
    res = {}  # key -> [name of the residue object, {atom key: record}]
    for r, a, q, rad, g in parse_dat_text(dat):
        res.setdefault(r, [r, {}])[1][a] = (q, rad, r, a, g)  # last row wins
    for pat, use, atoms in parse_names_text(names):
        if use is not None:
            for target, m in names_matches(pat, list(canon)):
                src = use.replace("$group", m.group(1)) if "$group" in use else use
                if "$group" in use and src not in res:
                    continue
                if src not in res:
                    raise KeyError(src)
                if target not in res:
                    res[target] = [src, {}]
                for an, rec in list(res[src][1].items()):  # cumulative overlay
                    res[target][1][an] = rec
        if atoms:
            for key, _m in names_matches(pat, list(res)):
                for new, old in atoms:
                    if old in res[key][1]:
                        res[key][1][new] = res[key][1][old]
    return {(k, an): rec + (nm,) for k, (nm, at) in res.items() for an, rec in at.items()}


def gen_related_pair(rng: random.Random, canon):
    """parameter file + names file whose section names are string-related to names they must not touch"""
    global _relations
    if _relations is None:
        _relations = name_relations(list(canon))
    relname = rng.choice(["prefix", "prefix", "prefix", "suffix", "suffix", "substring"])
    rel = _relations[relname]
    S = rng.choice(sorted(rel))
    longs = rng.sample(rel[S], min(len(rel[S]), rng.randint(1, 3)))
    extras = rng.sample(list(canon), rng.randint(0, 2))
    cluster = [S] + [x for x in dict.fromkeys(longs + extras) if x != S]
    feats = {"relation:" + relname}
    # the user's own residue names: either the same string relation among them (ADE / ADE5 / NADE), the
    # canonical names themselves, or unrelated names
    style = rng.choice(["mirrored", "mirrored", "canonical", "unrelated"])
    feats.add("native-names:" + style)
    base = rng.choice(["ADE", "URA", "XX", "TP3", "ALAD", "R"])
    native = {}
    for i, x in enumerate(cluster):
        if style == "mirrored" and S in x:
            native[x] = x.replace(S, base, 1) if relname != "suffix" else x[: len(x) - len(S)] + base
        elif style == "canonical" and rng.random() < 0.7:
            native[x] = x
        else:
            native[x] = f"{base}{'QWZYK'[i % 5]}{i}"
    pool = rng.sample(NATIVE_ATOMS, 5)
    lines = ["# generated parameter file\n"] if rng.random() < 0.5 else []
    k = 0
    for x in cluster:
        for a in rng.sample(pool, rng.randint(3, 5)):
            k += 1
            q = f"{rng.choice([-1, 1]) * (k * 0.0137 % 1):.4f}"
            rad = f"{0.5 + (k * 0.0713 % 2):.4f}"
            grp = [rng.choice(["N3", "CT", "HO"])] if rng.random() < 0.3 else []
            lines.append(rng.choice([" ", "\t"]).join([native[x], a, q, rad] + grp) + "\n")
    if rng.random() < 0.2:
        rng.shuffle(lines)
        feats.add("rows-not-grouped-by-residue")

    def aliases():
        out = {}
        for _ in range(rng.choice([0, 1, 2])):
            out[rng.choice(CANON_ATOMS)] = rng.choice(pool)
        # a canonical atom name is mapped onto the force field's name, not onto another alias
        return [(a, b) for a, b in out.items() if a not in pool or a == b]

    per_name = {}
    for x in cluster:
        secs = []
        r = rng.random()
        if native[x] == x and r < 0.5:
            al = aliases() or [(CANON_ATOMS[0], pool[0])]
            secs.append((x, None, al))  # the parameter file already uses the canonical residue name
            feats.add("atom-aliases-only")
        elif r < 0.7:
            secs.append((x, native[x], aliases()))
        else:
            secs.append((x, native[x], []))
            al = aliases()
            if al:
                secs.append((x, None, al))  # aliases in a section of their own, after the residue hook
                feats.add("atom-aliases-only")
        if rng.random() < 0.12:
            other = native[rng.choice(cluster)]
            secs.append((x, other, []))  # cumulative: a second force-field residue overlaid
            feats.add("cumulative")
        per_name[x] = secs
    order = rng.choice(["short-last", "short-last", "short-first", "shuffled"])
    feats.add("order:" + order)
    rest = [x for x in cluster if x != S]
    if order == "shuffled":
        seq = cluster[:]
        rng.shuffle(seq)
    else:
        rng.shuffle(rest)
        seq = rest + [S] if order == "short-last" else [S] + rest
    sections = [s for x in seq for s in per_name[x]]
    if rng.random() < 0.3:
        tpl = rng.choice(REL_TEMPLATES)
        pat = tpl.format(S=S)
        groups = re.compile(pat).groups
        use = None
        if groups and style == "mirrored":
            use = (("$group" + base) if tpl.startswith("(") else (base + "$group"))
            feats.add("$group")
        al = aliases()
        if use is not None or al:
            sections.insert(rng.randrange(len(sections) + 1), (pat, use, al))
            feats.add("regex:" + tpl)
    if any(a for _, _, a in sections):
        feats.add("atom-aliases")
    xml = ["<?xml version='1.0'?>", "<userff>"]
    for pat, use, atoms in sections:
        xml.append("  <residue>")
        xml.append(f"    <name>{pat.replace('&', '&amp;').replace('<', '&lt;')}</name>")
        if use is not None:
            xml.append(f"    <useresname>{use}</useresname>")
        for a, b in atoms:
            xml.append(f"    <atom><name>{a}</name><useatomname>{b}</useatomname></atom>")
        xml.append("  </residue>")
    xml.append("</userff>")
    return "".join(lines), "\n".join(xml) + "\n", sections, feats


def load_user_ff(dat: str, names: str):
    """the real Forcefield(userff, usernames) on the two texts -> flattened map, or the exception's class name"""
    from pdb2pqr import forcefield

    d = tempfile.mkdtemp(prefix="c01_")
    dp, np_ = os.path.join(d, "u.DAT"), os.path.join(d, "u.names")
    try:
        open(dp, "w", newline="").write(dat)
        open(np_, "w").write(names)
        try:
            return real_map(forcefield.Forcefield("user", definition(), dp, np_))
        except Exception as e:  # noqa: BLE001
            return type(e).__name__
    finally:
        for fn in os.listdir(d):
            os.unlink(os.path.join(d, fn))
        os.rmdir(d)


def user_ff_problems(dat: str, names: str, canon):
    """compare the loaded force field with the oracle's reading of the two files -> [(what, message, key)]"""
    try:
        want = expected_map(dat, names, canon)
    except KeyError:
        want = "KeyError"
    got = load_user_ff(dat, names)
    if isinstance(want, str) or isinstance(got, str):
        if want != got:
            return got, [("load-outcome", f"loading the parameter/names pair: expected {want if isinstance(want, str) else 'a force field'}, got {got if isinstance(got, str) else 'a force field'}", ["-", "-"])]
        return got, []
    out = []
    for k in want:
        if k not in got:
            out.append(("entry-lost", f"({k[0]}, {k[1]}): the files give {want[k]}, the loaded force field has no entry", list(k)))
        elif got[k] != want[k]:
            what = "wrong-value" if got[k][:2] != want[k][:2] else "wrong-native-names"
            out.append((what, f"({k[0]}, {k[1]}): the parameter file through the names file gives {want[k]}, the loaded force field answers {got[k]}", list(k)))
    for k in got:
        if k not in want:
            out.append(("entry-borrowed", f"({k[0]}, {k[1]}): no row/section of the files gives this entry, the loaded force field answers {got[k]}", list(k)))
    return got, out


def model_request(dat: str, sections, canon):
    import io

    try:
        enc = ";".join(" ".join(genff.re_tokens(genff.re_ast(p + "$"))) + "|" + ("~" if u is None else hexs(u)) + "|" + ",".join(f"{hexs(a)}={hexs(b)}" for a, b in at) for p, u, at in sections)
    except genff.Unsupported:
        return None
    dlines = io.StringIO(dat, newline=None).readlines()
    return f"ff.build\t{';'.join(hexs(l) for l in dlines)}\t{enc}\t{','.join(hexs(c) for c in canon)}"


def tie_related(ctx: Ctx, n: int):
    rng = random.Random(f"{ctx.pid}:related-names:{ctx.seed}")  # a stream of its own: the other streams keep their inputs
    canon = list(definition().map.keys())
    cases, reqs = [], []
    seen = set()
    for _ in range(n):
        dat, names, sections, feats = gen_related_pair(rng, canon)
        got, problems = user_ff_problems(dat, names, canon)
        ctx.evaluations += 1
        for f in feats:
            head, _, tail = f.partition(":")
            if tail and head in ("relation", "order", "native-names"):
                ctx.count("related-names-" + head, tail)
        ctx.count("related-names-outcome", got if isinstance(got, str) else "ok")
        ctx.distinct.add(("related", tuple(sorted(feats)), got if isinstance(got, str) else "ok"))
        relname = next(f for f in feats if f.startswith("relation:"))[9:]
        for what, msg, key in problems:
            sig = {"kind": "user-names-file", "what": what, "name-relation": relname}
            k = tuple(sorted(sig.items()))
            if k in seen:
                continue
            seen.add(k)
            ctx.violate(sig, "user parameter/names pair, entry " + msg, {"dat": dat, "names": names, "key": key})
        cases.append((dat, names, got))
        reqs.append(model_request(dat, sections, canon))
    if not ctx.driver.available():
        return
    ans = ctx.driver.ask([r for r in reqs if r is not None])
    j = 0
    for (dat, names, got), rq in zip(cases, reqs):
        if rq is None:
            ctx.count("related-names-model", "pattern-outside-model")
            continue
        a = ans[j]
        j += 1
        ctx.count("related-names-model", "compared")
        if a in ("ValueError", "IndexError", "KeyError") or isinstance(got, str):
            m_out = a if a in ("ValueError", "IndexError", "KeyError") else "ok"
            i_out = got if isinstance(got, str) else "ok"
            if m_out != i_out:
                ctx.disagree("Forcefield(userff, usernames) error class (related names)", {"dat": dat, "names": names}, m_out, i_out)
            continue
        mm = parse_map(a)
        dd = first_map_diff(mm, got)
        if dd is not None:
            ctx.disagree("Forcefield(userff, usernames).map (related names)", {"dat": dat, "names": names}, str(dd["model"]), f"{dd['key']}: {dd['impl']}")
        try:
            want = expected_map(dat, names, canon)
        except KeyError:
            continue
        if dict(mm) != want:
            bad = next((k for k in want if mm.get(k) != want[k]), None) or next(k for k in mm if k not in want)
            ctx.disagree("model vs independent oracle (related names)", {"dat": dat, "names": names}, str(mm.get(bad)), f"{bad}: {want.get(bad)}")


# ------------------------------------------------------------------ (c)

STATE_NAMES = {"ASP": ["ASH"], "GLU": ["GLH"], "HIS": ["HID", "HIE", "HIP", "HSD", "HSE", "HSP"], "CYS": ["CYM", "CYX"], "LYS": ["LYN"], "TYR": ["TYM"], "ARG": ["AR0"]}


def gen_case(rng):
    must = rng.choice(G.AA3 + [None] * 5)
    f, res = G.window(rng, must_have=must)
    feats = set()
    chains = [res]
    if len(res) >= 4 and rng.random() < 0.3:
        k = rng.randint(1, len(res) - 1)
        chains = [res[:k], res[k:]]
        # move the second piece away so that the chains are not bonded
        G.rigid(chains[1], [[1, 0, 0], [0, 1, 0], [0, 0, 1]], (40.0, 0.0, 0.0))
        feats.add("two-chains")
    for ci, ch in enumerate(chains):
        G.set_chain(ch, "AB"[ci], rng.choice([1, 5, 100]))
    if rng.random() < 0.35:
        # pre-named protonation state
        for ch in chains:
            for r in ch:
                alts = STATE_NAMES.get(r[0].resn)
                if alts and rng.random() < 0.5:
                    nm = rng.choice(alts)
                    for a in r:
                        a.resn = nm
                    feats.add("state:" + nm)
    waters = []
    if rng.random() < 0.4:
        c = G.centroid(res)
        waters = [G.water(rng, "A", 900 + i, c, 12.0, rng.choice(["HOH", "WAT"])) for i in range(rng.randint(1, 3))]
        feats.add("water")
    ff = rng.choice(FFS)
    opts = [f"--ff={ff}", "--whitespace", "--keep-chain"]
    if rng.random() < 0.25:
        opts.append("--nodebump")
        feats.add("nodebump")
    if rng.random() < 0.25:
        opts.append("--noopt")
        feats.add("noopt")
    if ff == "PARSE" and rng.random() < 0.4:
        opts.append(rng.choice(["--neutraln", "--neutralc"]))
        feats.add(opts[-1])
    text = G.to_pdb(chains, waters)
    return text, ff, opts, feats


def sweep_cases(rng):
    """every pre-named protonation state at the first and at the last position of a chain, and
    disulfide-bonded cysteines (terminal ones included) from the C13 generator"""
    from props import c13

    k = 0
    for t, states in STATE_NAMES.items():
        for st in states:
            for pos in (0, -1):
                for _ in range(40):
                    _f, res = G.window(rng, 3, must_have=t)
                    if res[pos][0].resn == t:
                        break
                else:
                    continue
                for a in res[pos]:
                    a.resn = st
                G.set_chain(res, "A", 1)
                ff = FFS[k % len(FFS)]
                k += 1
                yield G.to_pdb([res]), ff, [f"--ff={ff}", "--whitespace", "--keep-chain"], {"state:" + st, "terminal-first" if pos == 0 else "terminal-last"}
    for _ in range(8):
        text, opts, f = c13.gen_case(rng)
        ff = next(o for o in opts if o.startswith("--ff="))[5:]
        yield text, ff, opts, {"disulfide:" + ",".join(sorted(x for x in f if x in ("bonded", "third", "edge-in", "edge-out", "far", "free")))}
    yield from nucleic_cases(rng)


NUC_FFS = {"D": ["AMBER", "CHARMM", "TYL06"], "R": ["AMBER", "CHARMM", "PARSE", "TYL06"]}


def nucleic_requests(rng):
    """synthesised DNA / RNA strands (no nucleic-acid structure exists offline): for every force field that defines the
    nucleotides and each sugar kind, two runs of two strands so that every base occurs at the 5' end, in the middle and at
    the 3' end; RNA residues under their deposited one-letter names in every other run; one run with waters, one with a peptide chain.
    Yields (text, ff, options, features, strands) with strands = [(chain id, [look-up base names])] - the request."""
    k = 0
    for kind, ffs in NUC_FFS.items():
        al = G.DNA if kind == "D" else G.RNA
        for ff in ffs:
            for i in (0, 1):
                a = [al[i % 4], al[(i + 1) % 4], al[(i + 2) % 4]]
                b = [al[(i + 2) % 4], al[(i + 3) % 4]] + ([al[(i + 1) % 4]] if k % 3 == 0 else []) + [al[i % 4]]
                naming = "one-letter" if (kind == "R" and i == 1) else "full"
                ra, _ = G.strand(rng, kind, bases=a, chain="A", naming=naming)
                rb, _ = G.strand(rng, kind, bases=b, chain="B", origin=(0.0, 40.0, 0.0), naming=naming)
                feats = {"nucleic:" + kind, "nucleic-naming:" + naming}
                waters, chains = [], [ra, rb]
                if k % 4 == 1:
                    waters = [G.water(rng, "A", 900 + j, (10.0, -25.0, 0.0), 6.0) for j in range(3)]
                    feats.add("nucleic+waters")
                if k % 4 == 2:
                    _f, pep = G.window(rng, 4)
                    G.set_chain(pep, "P", 1)
                    G.rigid(pep, [[1, 0, 0], [0, 1, 0], [0, 0, 1]], (0.0, 0.0, 90.0))
                    chains.append(pep)
                    feats.add("nucleic+peptide")
                k += 1
                yield G.to_pdb(chains, waters), ff, [f"--ff={ff}", "--whitespace", "--keep-chain"], feats, [("A", a), ("B", b)]


def nucleic_cases(rng):
    for text, ff, opts, feats, _strands in nucleic_requests(rng):
        yield text, ff, opts, feats


def enc_info(i):
    flags = "".join("1" if i[k] else "0" for k in ("n", "c", "5", "3", "ss"))
    return ",".join([hexs(i["cls"]), hexs(i["name"]), "+".join(hexs(p) for p in i["patches"]), flags, "+".join(hexs(a) for a in i["atoms"])])


def check_run(ctx: Ctx, text, ff, opts, run):
    """compare a successful run with the model; returns list of (signature, message)"""
    problems = []
    bio = run.biomolecule
    infos = [G.residue_info(r) for r in bio.residues]
    ans = ctx.driver.ask([f"state.apply\t{hexs(ff)}\t{';'.join(enc_info(i) for i in infos)}"])[0] if ctx.driver.available() else None
    missed_ids = {id(a) for a in (run.missed or [])}
    pqr = G.pqr_atoms(run.pqr or "")
    written = 0
    parts = ans.split(";") if ans is not None else [None] * len(infos)
    for res, info, part in zip(bio.residues, infos, parts):
        if part is None:
            continue
        if part == "TypeError":
            problems.append(({"ff": ff, "ffname": info["name"], "atom": "-", "kind": "state-error"}, f"model: set_state would raise for {info['name']}"))
            continue
        lk, _, atoms = part.partition("=")
        lk = unhexs(lk)
        real_lookup = res.ffname if (info["is_amino"] or info["is_water"] or info["is_nucleic"]) else res.name
        if lk != real_lookup:
            problems.append(({"ff": ff, "ffname": real_lookup, "atom": "-", "kind": "state-name"}, f"{res}: looked up as {real_lookup!r}, model says {lk!r}"))
            continue
        for atom, m in zip(res.atoms, atoms.split(",") if atoms else []):
            is_missed = id(atom) in missed_ids
            if m == "m":
                if not is_missed:
                    kind = "defaulted" if atom.ffcharge in (0, 0.0, None) else "borrowed"
                    problems.append(({"ff": ff, "ffname": lk, "atom": atom.name, "kind": kind}, f"{res} {atom.name}: the force field has no entry for ({lk}, {atom.name}) but the atom got q={atom.ffcharge} r={atom.radius}"))
                continue
            q, r = (dec(x) for x in m[1:].split("/"))
            if is_missed:
                problems.append(({"ff": ff, "ffname": lk, "atom": atom.name, "kind": "lost"}, f"{res} {atom.name}: force field has ({q}, {r}) but the atom is reported unassigned"))
                continue
            if (atom.ffcharge, atom.radius) != (q, r):
                problems.append(({"ff": ff, "ffname": lk, "atom": atom.name, "kind": "wrong-value"}, f"{res} {atom.name}: assigned ({atom.ffcharge}, {atom.radius}), force field says ({q}, {r})"))
                continue
            # PQR columns
            if written < len(pqr):
                t = pqr[written]
                want_q = Decimal(q).quantize(Decimal("0.0001"))
                want_r = Decimal(r).quantize(Decimal("0.0001"))
                try:
                    ok = Decimal(t[-2]) == want_q and Decimal(t[-1]) == want_r and t[2] == atom.name
                except Exception:  # noqa: BLE001
                    ok = False
                if not ok:
                    problems.append(({"ff": ff, "ffname": lk, "atom": atom.name, "kind": "printed"}, f"{res} {atom.name}: PQR line {t} does not carry ({want_q}, {want_r})"))
            written += 1
    n_hits = sum(1 for r in bio.residues for a in r.atoms if id(a) not in missed_ids)
    if ans is not None and not problems and len(pqr) != n_hits:
        problems.append(({"ff": ff, "ffname": "-", "atom": "-", "kind": "unlisted"}, f"{len(pqr)} atom lines written, {n_hits} atoms assigned"))
    return problems


def run(ctx: Ctx):
    rng = ctx.rng
    ctx.extra["rule"] = (
        "(a) six built-in maps exhaustively + every names pattern x every canonical residue name; (b) generated parameter/.names pairs; (b') parameter/.names pairs whose section names are proper prefixes / suffixes / substrings of other canonical or parameter-file residue names, in both section orders, against an oracle reading only the two files; "
        "(c) every pre-named protonation state at the first and last chain position, disulfide pairs (terminal cysteines included), then peptide windows (2-12 residues, every residue type forced in turn, pre-named states, two chains, waters) x force field x options through the real pipeline; "
        "a case is (kind, feature set / ff / residue lookup names); distinct counts distinct tuples"
    )
    tie_builtin(ctx)
    tie_pairs(ctx, ctx.scale(150, 4000))
    tie_related(ctx, ctx.scale(150, 3000))
    n = ctx.scale(40, 1500)
    seen = set()
    cases = list(sweep_cases(rng)) + [gen_case(rng) for _ in range(n)]
    for ci, (text, ff, opts, feats) in enumerate(cases):
        r = G.run_pipeline(text, opts)
        ctx.evaluations += 1
        ctx.count("pipeline-outcome", r.status)
        ctx.count("ff", ff)
        if r.status != "ok":
            continue  # failures are C12's business
        names = tuple(sorted({getattr(x, "ffname", x.name) for x in r.biomolecule.residues}))
        ctx.distinct.add(("run", ff, names, tuple(sorted(feats))))
        for nm in names:
            ctx.count("lookup-names", nm)
        if ci < 2:
            ctx.sample({"pdb": text[:300], "options": opts, "lookup_names": names})
        for sig, msg in check_run(ctx, text, ff, opts, r):
            k = tuple(sorted(sig.items()))
            if k in seen:
                continue
            seen.add(k)
            ctx.violate(sig, msg, {"pdb": text, "options": opts, "ff": ff})


def replay(ctx: Ctx, data: dict) -> bool:
    rp = data.get("replay", data)
    if "dat" in rp and "names" in rp and "pdb" not in rp:
        _got, pr = user_ff_problems(rp["dat"], rp["names"], list(definition().map.keys()))
        for p in pr:
            print(p)
        return bool(pr)
    r = G.run_pipeline(rp["pdb"], rp["options"])
    print("status:", r.status, r.exc)
    if r.status != "ok":
        return False
    pr = check_run(ctx, rp["pdb"], rp["ff"], rp["options"], r)
    for p in pr:
        print(p)
    return bool(pr)
