"""C01 — assigned charges and radii are exactly the selected force field's parameters.

Tie: (a) the six built-in maps built by the Lean model from the generated DAT rows / .names
sections / canonical names vs the real Forcefield(...).map, exhaustively; the SAX handler's view
of each section vs the translator's; (b) generated parameter/.names pairs through the real
Forcefield(userff, usernames) vs the model; (c) end to end: generated structures through the real
main_driver, every atom's assigned parameters / hit-or-miss / PQR columns vs the model's
state naming + lookup."""

from __future__ import annotations

import os
import random
import re
import tempfile
from decimal import Decimal

import gen_struct as G
from core import Ctx, hexs, unhexs

import gen.ff as genff
import gen.topology as gentopo

GENERATORS = (gentopo.generate, genff.generate)
TRUSTED_BASE = [
    "Lean 4.33.0 kernel; axioms ⊆ {propext, Classical.choice, Quot.sound}",
    "translators gen/ff.py (DAT rows, .names sections, Python regex -> Regex AST via re._parser) and gen/topology.py (canonical names), regenerated every run; their output is cross-checked against the real Forcefield/Definition objects exhaustively",
    "hand-written models lean/P2P/Model/{Regex,FF,State}.lean tied to forcefield.py / aa.py / na.py / biomolecule.py by differential execution",
    "expat/SAX (the handler's view of every section is compared with the etree view each run)",
    "float(text) applied by the harness to the model's exact decimals",
]
ASSUMPTIONS = ["parameter files within the documented decimal grammar", "agreement observed only on generated inputs (built-in maps: exhaustive)"]
FFS = ["AMBER", "CHARMM", "PARSE", "PEOEPB", "SWANSON", "TYL06"]

_defn = None


def definition():
    global _defn
    if _defn is None:
        from pdb2pqr import io as pio

        _defn = pio.get_definitions()
    return _defn


def dec(x: str) -> float:
    n, m, e = x.split(":")
    v = float(f"{m}e{e}")
    return -v if n == "1" else v


def parse_map(ans: str):
    mm = {}
    if not ans:
        return mm
    for it in ans.split(";"):
        k, an, q, r, nres, nat, grp, rname = it.split(",")
        mm[(unhexs(k), unhexs(an))] = (dec(q), dec(r), unhexs(nres), unhexs(nat), unhexs(grp), unhexs(rname))
    return mm


def real_map(ff):
    rm = {}
    for k, res in ff.map.items():
        for an, a in res.atoms.items():
            rm[(k, an)] = (a.charge, a.radius, a.resname, a.name, a.group, res.name)
    return rm


def first_map_diff(mm, rm):
    for k in rm:
        if mm.get(k) != rm[k]:
            return {"key": k, "model": mm.get(k), "impl": rm[k]}
    for k in mm:
        if k not in rm:
            return {"key": k, "model": mm[k], "impl": None}
    if list(mm) != list(rm):
        return {"key": "order", "model": list(mm)[:5], "impl": list(rm)[:5]}
    return None


# ------------------------------------------------------------------ (a)


def tie_builtin(ctx: Ctx):
    from pdb2pqr import forcefield

    # SAX handler's view of the sections
    seen = []
    orig = forcefield.ForcefieldHandler.endElement

    def wrapped(self, name):
        if name == "residue":
            seen.append((self.newresname, self.oldresname, list(self.atommap.items())))
        return orig(self, name)

    for ffn in FFS:
        seen.clear()
        forcefield.ForcefieldHandler.endElement = wrapped
        try:
            real = forcefield.Forcefield(ffn.lower(), definition(), None)
        finally:
            forcefield.ForcefieldHandler.endElement = orig
        etree_view = genff.read_names(genff.DAT / f"{ffn}.names")
        ctx.evaluations += 1
        if [tuple(s) for s in seen] != [tuple(s) for s in etree_view]:
            i = next((i for i, (a, b) in enumerate(zip(seen, etree_view)) if tuple(a) != tuple(b)), min(len(seen), len(etree_view)))
            ctx.disagree("names sections (SAX handler vs translator)", {"ff": ffn, "index": i}, str(etree_view[i : i + 1]), str(seen[i : i + 1]))
        ctx.count("sections", ffn, len(seen))
        if ctx.driver.available():
            mm = parse_map(ctx.driver.ask([f"ff.dump\t{hexs(ffn)}"])[0])
            rm = real_map(real)
            ctx.count("map-entries", ffn, len(rm))
            for k in list(rm)[:: max(1, len(rm) // 40)]:
                ctx.distinct.add(("map", ffn, k[0]))
            d = first_map_diff(mm, rm)
            if d is not None:
                ctx.disagree("Forcefield.map (built-in)", {"ff": ffn}, str(d["model"]), f"{d['key']}: {d['impl']}")
    # canonical names
    if ctx.driver.available():
        canon = [unhexs(x) for x in ctx.driver.ask(["ff.canon"])[0].split(",")]
        if canon != list(definition().map.keys()):
            ctx.disagree("Definition.map keys", {}, str(canon[:10]), str(list(definition().map.keys())[:10]))
    # regex matcher on every pattern x every canonical name
    pats = set()
    for ffn in FFS:
        for pat, _use, _atoms in genff.read_names(genff.DAT / f"{ffn}.names"):
            pats.add(pat + "$")
    for p in gentopo.definitions().patchlist:
        if p.newname:
            pats.add(p.applyto)
    import re

    names = list(definition().map.keys()) + ["", "N", "NALAX", "nala", "C", "HI", "HIPP"]
    reqs, exp = [], []
    for p in sorted(pats):
        toks = " ".join(genff.re_tokens(genff.re_ast(p)))
        for n in names:
            reqs.append(f"re.match\t{toks}\t{hexs(n)}")
            m = re.compile(p).match(n)
            exp.append("-" if not m else "+" + ",".join(hexs(g or "") for g in m.groups()))
    if ctx.driver.available():
        ans = ctx.driver.ask(reqs)
        ctx.evaluations += len(reqs)
        ctx.count("regex-matches", "total", len(reqs))
        bad = [(r, a, e) for r, a, e in zip(reqs, ans, exp) if a != e]
        if bad:
            ctx.disagree("re.match (pattern x canonical name)", {"request": bad[0][0]}, bad[0][1], bad[0][2])


# ------------------------------------------------------------------ (b)

PAT_TEMPLATES = ["{A}", "N...$", "C(...)$", "[NC]?(?!{A}$)...$", "[NC]?(?!{A}$|{B}$)...$", "HI([PDE])$", "N(?!PRO$)...$", "..[^35]$", "{A}|{B}", "[NC]?{A}", "NEUTRAL-N(...)$", "(...)$", "[RD][ACGTU][35]?$"]


def gen_pair(rng: random.Random):
    """a parameter file and a .names file in the documented formats (mostly valid)"""
    resn = rng.sample(["ALA", "GLY", "HIS", "HSD", "ASP", "ASPP", "BKN", "NTER", "CTER", "WAT", "H2O", "PRO", "CYS", "CSS", "LIG", "NALA", "CALA"], rng.randint(3, 8))
    atomn = ["N", "CA", "C", "O", "H", "H1", "H2", "H3", "HA", "CB", "OXT", "OW", "HW", "HB1", "HB2", "HB3", "OD1", "HD1", "HE2"]
    lines = []
    feats = set()
    if rng.random() < 0.5:
        lines.append("# comment line\n")
        feats.add("comment")
    body = []  # (line text, (res, atom, charge text, radius text, group)) in file order
    for r in resn:
        for a in rng.sample(atomn, rng.randint(1, 6)):
            q = rng.choice([f"{rng.uniform(-1, 1):.4f}", f"{rng.uniform(-1, 1):.3f}", "0", "-0.5", "+0.25", "1e-1", ".5", "5."])
            rad = rng.choice([f"{rng.uniform(0, 2.5):.4f}", "1.5", "0.0000", "2"])
            sep = rng.choice([" ", "\t", "   "])
            grp = [rng.choice(["N3", "CT", "HO"])] if rng.random() < 0.5 else []
            row = sep.join([r, a, q, rad] + grp)
            body.append((rng.choice(["", " "]) + row + rng.choice(["\n", " \n", "\r\n"]), (r, a, q, rad, grp[0] if grp else "")))
            if rng.random() < 0.05:
                body.append(("\n", None))
                feats.add("blank")
            if rng.random() < 0.05:
                q2 = f"{rng.uniform(-1, 1):.4f}"
                body.append((sep.join([r, a, q2, "1.0000"]) + "\n", (r, a, q2, "1.0000", "")))  # duplicate: last wins
                feats.add("duplicate-row")
    if rng.random() < 0.3:
        # the format is line based: the rows of one residue need not be contiguous
        how = rng.choice(["shuffle", "move-one", "interleave"])
        if how == "shuffle":
            rng.shuffle(body)
        elif how == "move-one" and len(body) > 2:
            body.insert(rng.randrange(len(body)), body.pop(rng.randrange(len(body))))
        else:
            body = body[::2] + body[1::2]
        feats.add("rows-not-grouped-by-residue")
    lines += [t for t, _ in body]
    gen_pair.last_rows = [r for _, r in body if r is not None]
    r = rng.random()
    if r < 0.03:
        lines.insert(rng.randrange(len(lines) + 1), "ALA N x 1.0\n")
        feats.add("bad-number")
    elif r < 0.05:
        lines.insert(rng.randrange(len(lines) + 1), "ALA N 0.1\n")
        feats.add("short-row")
    elif r < 0.06:
        lines.insert(rng.randrange(len(lines) + 1), "ALA\n")
        feats.add("one-field")
    # sections
    sections = []
    for _ in range(rng.choice([0, 0, 0, 1, 2, 3, 4, 6])):
        A, B = rng.sample(["ALA", "GLY", "HIS", "PRO", "ASP", "CYS", "WAT", "ILE"], 2)
        pat = rng.choice(PAT_TEMPLATES).format(A=A, B=B)
        use = None
        r = rng.random()
        if r < 0.35:
            use = rng.choice(resn * 3 + ["MISSING"])
            feats.add("useresname")
        elif r < 0.55 and re.compile(pat).groups >= 1:
            use = rng.choice(["$group", "HS$group", "N$group", "$groupP"])
            feats.add("$group")
        atoms = {}
        for _ in range(rng.choice([0, 0, 1, 2, 3])):
            atoms[rng.choice(atomn)] = rng.choice(atomn)
        if atoms:
            feats.add("atom-aliases")
        sections.append((pat, use, list(atoms.items())))
    xml = ["<?xml version='1.0'?>", "<patches>"]
    for pat, use, atoms in sections:
        xml.append("  <residue>")
        xml.append(f"    <name>{pat.replace('&', '&amp;').replace('<', '&lt;')}</name>")
        if use is not None:
            xml.append(f"    <useresname>{use}</useresname>")
        for a, b in atoms:
            xml.append(f"    <atom><name>{a}</name><useatomname>{b}</useatomname></atom>")
        xml.append("  </residue>")
    xml.append("</patches>")
    return "".join(lines), "\n".join(xml) + "\n", sections, feats


def tie_pairs(ctx: Ctx, n: int):
    from pdb2pqr import forcefield

    rng = ctx.rng
    canon = list(definition().map.keys())
    d = tempfile.mkdtemp(prefix="c01_")
    try:
        reqs, impl = [], []
        for i in range(n):
            dat, names, sections, feats = gen_pair(rng)
            dp, np_ = os.path.join(d, "u.DAT"), os.path.join(d, "u.names")
            open(dp, "w", newline="").write(dat)
            open(np_, "w").write(names)
            try:
                ff = forcefield.Forcefield("user", definition(), dp, np_)
                res = real_map(ff)
            except (ValueError, IndexError, KeyError) as e:
                res = type(e).__name__
            impl.append((dat, names, res, feats))
            # independent oracle when there is no names section: the map is exactly "last row per (residue, atom)"
            if not sections and isinstance(res, dict) and not ({"bad-number", "short-row", "one-field"} & feats):
                want = {}
                for r_, a_, q_, rad_, g_ in gen_pair.last_rows:
                    want[(r_, a_)] = (float(q_), float(rad_), r_, a_)
                got = {k: (v[0], v[1], v[2], v[3]) for k, v in res.items()}
                if got != want:
                    bad = next((k for k in want if got.get(k) != want[k]), None) or next(k for k in got if k not in want)
                    ctx.violate({"kind": "user-parameter-file", "what": "entry-lost" if bad not in got else "wrong-value" if bad in want else "entry-invented", "grouped": "rows-not-grouped-by-residue" not in feats},
                                f"parameter file row {bad}: the file gives {want.get(bad)}, the loaded force field answers {got.get(bad)}", {"dat": dat, "names": names, "key": list(bad)})
            try:
                enc = ";".join(" ".join(genff.re_tokens(genff.re_ast(p + "$"))) + "|" + ("~" if u is None else hexs(u)) + "|" + ",".join(f"{hexs(a)}={hexs(b)}" for a, b in at) for p, u, at in sections)
            except genff.Unsupported:
                enc = None
            import io

            dlines = io.StringIO(dat, newline=None).readlines()
            reqs.append(None if enc is None else f"ff.build\t{';'.join(hexs(l) for l in dlines)}\t{enc}\t{','.join(hexs(c) for c in canon)}")
        ans = ctx.driver.ask([r for r in reqs if r is not None]) if ctx.driver.available() else None
        j = 0
        for (dat, names, res, feats), rq in zip(impl, reqs):
            ctx.evaluations += 1
            ctx.distinct.add(("pair", tuple(sorted(feats)), res if isinstance(res, str) else "ok"))
            ctx.count("pairs-outcome", res if isinstance(res, str) else "ok")
            if rq is None or ans is None:
                continue
            a = ans[j]
            j += 1
            if a in ("ValueError", "IndexError", "KeyError"):
                if a != res:
                    ctx.disagree("Forcefield(userff, usernames) error class", {"dat": dat, "names": names}, a, res if isinstance(res, str) else "ok")
            elif isinstance(res, str):
                ctx.disagree("Forcefield(userff, usernames) error class", {"dat": dat, "names": names}, "ok", res)
            else:
                dd = first_map_diff(parse_map(a), res)
                if dd is not None:
                    ctx.disagree("Forcefield(userff, usernames).map", {"dat": dat, "names": names}, str(dd["model"]), f"{dd['key']}: {dd['impl']}")
    finally:
        for fn in os.listdir(d):
            os.unlink(os.path.join(d, fn))
        os.rmdir(d)


# ------------------------------------------------------------------ (c)

STATE_NAMES = {"ASP": ["ASH"], "GLU": ["GLH"], "HIS": ["HID", "HIE", "HIP", "HSD", "HSE", "HSP"], "CYS": ["CYM", "CYX"], "LYS": ["LYN"], "TYR": ["TYM"], "ARG": ["AR0"]}


def gen_case(rng):
    must = rng.choice(G.AA3 + [None] * 5)
    f, res = G.window(rng, must_have=must)
    feats = set()
    chains = [res]
    if len(res) >= 4 and rng.random() < 0.3:
        k = rng.randint(1, len(res) - 1)
        chains = [res[:k], res[k:]]
        # move the second piece away so that the chains are not bonded
        G.rigid(chains[1], [[1, 0, 0], [0, 1, 0], [0, 0, 1]], (40.0, 0.0, 0.0))
        feats.add("two-chains")
    for ci, ch in enumerate(chains):
        G.set_chain(ch, "AB"[ci], rng.choice([1, 5, 100]))
    if rng.random() < 0.35:
        # pre-named protonation state
        for ch in chains:
            for r in ch:
                alts = STATE_NAMES.get(r[0].resn)
                if alts and rng.random() < 0.5:
                    nm = rng.choice(alts)
                    for a in r:
                        a.resn = nm
                    feats.add("state:" + nm)
    waters = []
    if rng.random() < 0.4:
        c = G.centroid(res)
        waters = [G.water(rng, "A", 900 + i, c, 12.0, rng.choice(["HOH", "WAT"])) for i in range(rng.randint(1, 3))]
        feats.add("water")
    ff = rng.choice(FFS)
    opts = [f"--ff={ff}", "--whitespace", "--keep-chain"]
    if rng.random() < 0.25:
        opts.append("--nodebump")
        feats.add("nodebump")
    if rng.random() < 0.25:
        opts.append("--noopt")
        feats.add("noopt")
    if ff == "PARSE" and rng.random() < 0.4:
        opts.append(rng.choice(["--neutraln", "--neutralc"]))
        feats.add(opts[-1])
    text = G.to_pdb(chains, waters)
    return text, ff, opts, feats


def sweep_cases(rng):
    """every pre-named protonation state at the first and at the last position of a chain, and
    disulfide-bonded cysteines (terminal ones included) from the C13 generator"""
    from props import c13

    k = 0
    for t, states in STATE_NAMES.items():
        for st in states:
            for pos in (0, -1):
                for _ in range(40):
                    _f, res = G.window(rng, 3, must_have=t)
                    if res[pos][0].resn == t:
                        break
                else:
                    continue
                for a in res[pos]:
                    a.resn = st
                G.set_chain(res, "A", 1)
                ff = FFS[k % len(FFS)]
                k += 1
                yield G.to_pdb([res]), ff, [f"--ff={ff}", "--whitespace", "--keep-chain"], {"state:" + st, "terminal-first" if pos == 0 else "terminal-last"}
    for _ in range(8):
        text, opts, f = c13.gen_case(rng)
        ff = next(o for o in opts if o.startswith("--ff="))[5:]
        yield text, ff, opts, {"disulfide:" + ",".join(sorted(x for x in f if x in ("bonded", "third", "edge-in", "edge-out", "far", "free")))}


def enc_info(i):
    flags = "".join("1" if i[k] else "0" for k in ("n", "c", "5", "3", "ss"))
    return ",".join([hexs(i["cls"]), hexs(i["name"]), "+".join(hexs(p) for p in i["patches"]), flags, "+".join(hexs(a) for a in i["atoms"])])


def check_run(ctx: Ctx, text, ff, opts, run):
    """compare a successful run with the model; returns list of (signature, message)"""
    problems = []
    bio = run.biomolecule
    infos = [G.residue_info(r) for r in bio.residues]
    ans = ctx.driver.ask([f"state.apply\t{hexs(ff)}\t{';'.join(enc_info(i) for i in infos)}"])[0] if ctx.driver.available() else None
    missed_ids = {id(a) for a in (run.missed or [])}
    pqr = G.pqr_atoms(run.pqr or "")
    written = 0
    parts = ans.split(";") if ans is not None else [None] * len(infos)
    for res, info, part in zip(bio.residues, infos, parts):
        if part is None:
            continue
        if part == "TypeError":
            problems.append(({"ff": ff, "ffname": info["name"], "atom": "-", "kind": "state-error"}, f"model: set_state would raise for {info['name']}"))
            continue
        lk, _, atoms = part.partition("=")
        lk = unhexs(lk)
        real_lookup = res.ffname if (info["is_amino"] or info["is_water"] or info["is_nucleic"]) else res.name
        if lk != real_lookup:
            problems.append(({"ff": ff, "ffname": real_lookup, "atom": "-", "kind": "state-name"}, f"{res}: looked up as {real_lookup!r}, model says {lk!r}"))
            continue
        for atom, m in zip(res.atoms, atoms.split(",") if atoms else []):
            is_missed = id(atom) in missed_ids
            if m == "m":
                if not is_missed:
                    kind = "defaulted" if atom.ffcharge in (0, 0.0, None) else "borrowed"
                    problems.append(({"ff": ff, "ffname": lk, "atom": atom.name, "kind": kind}, f"{res} {atom.name}: the force field has no entry for ({lk}, {atom.name}) but the atom got q={atom.ffcharge} r={atom.radius}"))
                continue
            q, r = (dec(x) for x in m[1:].split("/"))
            if is_missed:
                problems.append(({"ff": ff, "ffname": lk, "atom": atom.name, "kind": "lost"}, f"{res} {atom.name}: force field has ({q}, {r}) but the atom is reported unassigned"))
                continue
            if (atom.ffcharge, atom.radius) != (q, r):
                problems.append(({"ff": ff, "ffname": lk, "atom": atom.name, "kind": "wrong-value"}, f"{res} {atom.name}: assigned ({atom.ffcharge}, {atom.radius}), force field says ({q}, {r})"))
                continue
            # PQR columns
            if written < len(pqr):
                t = pqr[written]
                want_q = Decimal(q).quantize(Decimal("0.0001"))
                want_r = Decimal(r).quantize(Decimal("0.0001"))
                try:
                    ok = Decimal(t[-2]) == want_q and Decimal(t[-1]) == want_r and t[2] == atom.name
                except Exception:  # noqa: BLE001
                    ok = False
                if not ok:
                    problems.append(({"ff": ff, "ffname": lk, "atom": atom.name, "kind": "printed"}, f"{res} {atom.name}: PQR line {t} does not carry ({want_q}, {want_r})"))
            written += 1
    n_hits = sum(1 for r in bio.residues for a in r.atoms if id(a) not in missed_ids)
    if ans is not None and not problems and len(pqr) != n_hits:
        problems.append(({"ff": ff, "ffname": "-", "atom": "-", "kind": "unlisted"}, f"{len(pqr)} atom lines written, {n_hits} atoms assigned"))
    return problems


def run(ctx: Ctx):
    rng = ctx.rng
    ctx.extra["rule"] = (
        "(a) six built-in maps exhaustively + every names pattern x every canonical residue name; (b) generated parameter/.names pairs; "
        "(c) every pre-named protonation state at the first and last chain position, disulfide pairs (terminal cysteines included), then peptide windows (2-12 residues, every residue type forced in turn, pre-named states, two chains, waters) x force field x options through the real pipeline; "
        "a case is (kind, feature set / ff / residue lookup names); distinct counts distinct tuples"
    )
    tie_builtin(ctx)
    tie_pairs(ctx, ctx.scale(150, 4000))
    n = ctx.scale(40, 1500)
    seen = set()
    cases = list(sweep_cases(rng)) + [gen_case(rng) for _ in range(n)]
    for ci, (text, ff, opts, feats) in enumerate(cases):
        r = G.run_pipeline(text, opts)
        ctx.evaluations += 1
        ctx.count("pipeline-outcome", r.status)
        ctx.count("ff", ff)
        if r.status != "ok":
            continue  # failures are C12's business
        names = tuple(sorted({getattr(x, "ffname", x.name) for x in r.biomolecule.residues}))
        ctx.distinct.add(("run", ff, names, tuple(sorted(feats))))
        for nm in names:
            ctx.count("lookup-names", nm)
        if ci < 2:
            ctx.sample({"pdb": text[:300], "options": opts, "lookup_names": names})
        for sig, msg in check_run(ctx, text, ff, opts, r):
            k = tuple(sorted(sig.items()))
            if k in seen:
                continue
            seen.add(k)
            ctx.violate(sig, msg, {"pdb": text, "options": opts, "ff": ff})


def replay(ctx: Ctx, data: dict) -> bool:
    rp = data.get("replay", data)
    r = G.run_pipeline(rp["pdb"], rp["options"])
    print("status:", r.status, r.exc)
    if r.status != "ok":
        return False
    pr = check_run(ctx, rp["pdb"], rp["ff"], rp["options"], r)
    for p in pr:
        print(p)
    return bool(pr)
