"""C08 — the PQR file is a faithful, re-readable serialisation of the model.

Tie: real Atom.get_pqr_string / print_biomolecule_atoms / print_pqr /
Atom.from_pqr_line / io.read_pqr  vs  the Lean model P2P.Model.Pqr.
Oracle: the property itself, evaluated on the bytes the real code writes."""

from __future__ import annotations

import argparse
import io as _io
import math
import os
import string
import tempfile
from decimal import ROUND_HALF_EVEN, Decimal

from core import Ctx, hexs, unhexs

GENERATORS = ()
TRUSTED_BASE = [
    "Lean 4.33.0 kernel; axioms of every C08 theorem ⊆ {propext, Classical.choice, Quot.sound} (printed each run)",
    "hand-written model lean/P2P/Model/Pqr.lean tied to structures.py/io.py/main.py by differential execution (this harness)",
    "Python float formatting modelled as exact decimal rounding half-to-even of the binary value (harness computes it with decimal.Decimal)",
    "str.split()/strip() modelled for ASCII whitespace only; float()/int() grammar without underscores",
]
ASSUMPTIONS = [
    "atom fields are ASCII; floats are finite",
    "agreement model/implementation observed only on generated inputs",
]

FIELDS = ["type", "serial", "name", "res_name", "chain_id", "res_seq", "ins_code", "x", "y", "z", "charge", "radius"]


def quant(v: float, k: int):
    """(neg, mag) of v rounded to k decimals the way format() does"""
    d = Decimal(v).quantize(Decimal(1).scaleb(-k), rounding=ROUND_HALF_EVEN)
    neg = d.is_signed()
    mag = int(abs(d).scaleb(k))
    return neg, mag


def enc_fix(v, k):
    if v is None:
        return "-"
    neg, mag = quant(v, k)
    return ("n" if neg else "p") + str(mag)


def enc_atom(a: dict) -> str:
    return ",".join(
        [
            hexs(a["type"]),
            str(a["serial"]),
            hexs(a["name"]),
            hexs(a["res_name"]),
            hexs(a["chain_id"]),
            str(a["res_seq"]),
            hexs(a["ins_code"]),
            enc_fix(a["x"], 3),
            enc_fix(a["y"], 3),
            enc_fix(a["z"], 3),
            enc_fix(a["charge"], 4),
            enc_fix(a["radius"], 4),
        ]
    )


def mk_atom(a: dict):
    from pdb2pqr.structures import Atom

    at = Atom(type_=a["type"])
    at.serial = a["serial"]
    at.name = a["name"]
    at.res_name = a["res_name"]
    at.chain_id = a["chain_id"]
    at.res_seq = a["res_seq"]
    at.ins_code = a["ins_code"]
    at.x, at.y, at.z = a["x"], a["y"], a["z"]
    at.ffcharge = a["charge"]
    at.radius = a["radius"]
    return at


def dec_pyfloat(s: str):
    """model float -> python float (the same correctly-rounded conversion float(text) does)"""
    if s == "nan":
        return math.nan
    p = s.split(":")
    if p[0] == "inf":
        return -math.inf if p[1] == "1" else math.inf
    neg, mant, exp = p[1] == "1", int(p[2]), int(p[3])
    v = float(f"{mant}e{exp}")
    return -v if neg else v


def dec_fields(s: str):
    p = s.split(",")
    if len(p) != 12:
        return s
    return {
        "type": unhexs(p[0]),
        "serial": int(p[1]),
        "name": unhexs(p[2]),
        "res_name": unhexs(p[3]),
        "chain_id": unhexs(p[4]),
        "res_seq": int(p[5]),
        "ins_code": unhexs(p[6]),
        "x": dec_pyfloat(p[7]),
        "y": dec_pyfloat(p[8]),
        "z": dec_pyfloat(p[9]),
        "charge": dec_pyfloat(p[10]),
        "radius": dec_pyfloat(p[11]),
    }


def impl_fields(at):
    return {
        "type": at.type,
        "serial": at.serial,
        "name": at.name,
        "res_name": at.res_name,
        "chain_id": at.chain_id or "",
        "res_seq": at.res_seq,
        "ins_code": at.ins_code or "",
        "x": at.x,
        "y": at.y,
        "z": at.z,
        "charge": at.charge,
        "radius": at.radius,
    }


def same_fields(a, b):
    if not isinstance(a, dict) or not isinstance(b, dict):
        return a == b
    for k in FIELDS:
        x, y = a[k], b[k]
        if isinstance(x, float) or isinstance(y, float):
            if not (x == y or (isinstance(x, float) and isinstance(y, float) and math.isnan(x) and math.isnan(y))):
                return False
        elif x != y:
            return False
    return True


def impl_fromline(line: str):
    from pdb2pqr.structures import Atom

    try:
        at = Atom.from_pqr_line(line)
    except ValueError:
        return "ValueError"
    except IndexError:
        return "IndexError"
    if at is None:
        return "None"
    return impl_fields(at)


# ------------------------------------------------------------------ generators

NAME_CHARS = string.ascii_uppercase + string.digits + "'*"


def log_int(rng, maxdigits, signed=True):
    d = rng.randint(1, maxdigits)
    v = rng.randint(10 ** (d - 1) if d > 1 else 0, 10**d - 1)
    if signed and rng.random() < 0.25:
        v = -v
    return v


def log_float(rng, maxexp, minexp=-4, signed=True):
    e = rng.uniform(minexp, maxexp)
    v = 10**e
    r = rng.random()
    if r < 0.1:
        v = float(round(v))  # integral values
    elif r < 0.2:
        v = round(v, 3) + 0.0005  # rounding ties
    elif r < 0.25:
        v = 10 ** round(e) - 0.0004  # just below a width boundary
    elif r < 0.3:
        v = 10 ** round(e) - 0.0005
    if signed and rng.random() < 0.4:
        v = -v
    return v


def gen_atom(rng, wide: bool):
    """wide=False stays inside the property's field ranges that fit the columns;
    wide=True explores beyond every field width."""
    a = {}
    a["type"] = rng.choice(["ATOM", "HETATM"])
    a["serial"] = log_int(rng, 7 if wide else 5, signed=False)
    nl = rng.choice([1, 2, 3, 3, 4, 4])
    a["name"] = "".join(rng.choice(NAME_CHARS) for _ in range(nl))
    if rng.random() < 0.03:
        a["name"] = rng.choice(["HD21", "OD1", "NE2", "HE22"]) + "FLIP"
    rl = rng.choice([1, 2, 3, 3, 3, 4])
    a["res_name"] = "".join(rng.choice(string.ascii_uppercase + string.digits) for _ in range(rl))
    r = rng.random()
    a["chain_id"] = "" if r < 0.2 else rng.choice(string.ascii_uppercase + string.ascii_lowercase) if r < 0.9 else rng.choice(string.digits)
    a["res_seq"] = log_int(rng, 5 if wide else 4)
    if not wide and a["res_seq"] < -999:
        a["res_seq"] = -(-a["res_seq"] % 1000)
    a["ins_code"] = rng.choice(string.ascii_uppercase) if rng.random() < (0.15 if wide else 0.08) else ""
    cmax = 5.0 if wide else 3.99
    for c in "xyz":
        v = log_float(rng, cmax)
        if not wide:
            if v >= 9999.9994:
                v = 9999.0
            if v <= -999.9994:
                v = -999.0
        a[c] = v
    q = log_float(rng, 3.2 if wide else 0.9, minexp=-5)
    a["charge"] = None if rng.random() < 0.02 else q
    rr = log_float(rng, 2.3 if wide else 0.9, minexp=-3, signed=False)
    a["radius"] = None if rng.random() < 0.02 else rr
    return a


# ------------------------------------------------------------- domain predicates
# Must mirror `Fits` / `FitsWs` in lean/P2P/Props/C08.lean (checked against the driver).


def fits(a, kc):
    def fx(v, k, w):
        if v is None:
            return True
        neg, mag = quant(v, k)
        return len(("-" if neg else "") + str(mag // 10**k)) + 1 + k <= w

    return (
        a["type"] in ("ATOM", "HETATM")
        and 0 <= a["serial"] < 100000
        and 1 <= len(a["name"]) <= 4
        and not a["name"].endswith("FLIP")
        and 1 <= len(a["res_name"]) <= 4
        and len(a["chain_id"]) <= 1
        and -999 <= a["res_seq"] <= 9999
        and len(a["ins_code"]) <= 1
        and all(fx(a[c], 3, 8) for c in "xyz")
        and fx(a["charge"], 4, 8)
        and fx(a["radius"], 4, 7)
    )


def fits_ws(a, kc):
    def fx(v, k, w):
        if v is None:
            return True
        neg, mag = quant(v, k)
        return len(("-" if neg else "") + str(mag // 10**k)) + 1 + k <= w

    chain = a["chain_id"] if kc else ""
    return (
        fits(a, kc)
        and a["ins_code"] == ""
        and (chain == "" or (len(str(a["res_seq"])) <= 3 and not chain.isdigit()))
        and fx(a["charge"], 4, 7)
        and fx(a["radius"], 4, 6)
    )


# --------------------------------------------------------------------- oracle


def expected_fields(a, kc):
    return {
        "type": a["type"],
        "serial": a["serial"],
        "name": a["name"],
        "res_name": a["res_name"],
        "chain_id": a["chain_id"] if kc else "",
        "res_seq": a["res_seq"],
        "ins_code": a["ins_code"],
        **{c: Decimal(a[c]).quantize(Decimal("0.001"), rounding=ROUND_HALF_EVEN) for c in "xyz"},
        "charge": Decimal(a["charge"] if a["charge"] is not None else 0).quantize(Decimal("0.0001"), rounding=ROUND_HALF_EVEN),
        "radius": Decimal(a["radius"] if a["radius"] is not None else 0).quantize(Decimal("0.0001"), rounding=ROUND_HALF_EVEN),
    }


def col_read(line):
    """independent fixed-column reader"""

    def num(s):
        try:
            return Decimal(s.strip())
        except Exception:
            return None

    def integer(s):
        try:
            return int(s)
        except Exception:
            return None

    return {
        "type": line[0:6].strip(),
        "serial": integer(line[6:11]),
        "name": line[12:16].strip(),
        "res_name": line[16:20].strip(),
        "chain_id": line[21:22].strip(),
        "res_seq": integer(line[22:26]),
        "ins_code": line[26:27].strip(),
        "x": num(line[30:38]),
        "y": num(line[38:46]),
        "z": num(line[46:54]),
        "charge": num(line[54:62]),
        "radius": num(line[62:69]),
    }


def first_diff(exp, got, numeric_exact=True):
    for k in FIELDS:
        e, g = exp[k], got.get(k)
        if isinstance(e, Decimal):
            if g is None:
                return k
            gd = g if isinstance(g, Decimal) else Decimal(repr(g)) if not isinstance(g, float) else None
            if isinstance(g, float):
                # value read by float(): must be the float nearest to the printed decimal
                if g != float(e):
                    return k
            elif gd != e:
                return k
        elif e != g:
            return k
    return None


BASE = {"type": "ATOM", "serial": 1, "name": "CA", "res_name": "ALA", "chain_id": "A", "res_seq": 1, "ins_code": "", "x": 1.0, "y": 2.0, "z": 3.0, "charge": -0.1, "radius": 1.5}


def fieldname(k):
    return "coord" if k in "xyz" else k


def problem(a, kc, ws, line, reader_result):
    """property C08 on one atom and the bytes the real code produced for it.
    Returns None when it holds, else (layout, field, kind, text)."""
    exp = expected_fields(a, kc)
    if not ws:
        got = col_read(line.rstrip("\n"))
        k = first_diff(exp, got)
        if k is not None:
            return ("fixed", fieldname(k), "truncated", f"fixed-column field {k} of the written line does not read back: wrote {line!r} for {exp[k]!r}")
        return None
    # whitespace layout: independent tokeniser per docs/source/formats/pqr.rst
    toks = line.split()
    names = ["type", "serial", "name", "res_name"] + (["chain_id"] if exp["chain_id"] != "" else []) + ["res_seq", "x", "y", "z", "charge", "radius"]
    want = [str(exp[n]) if not isinstance(exp[n], Decimal) else exp[n] for n in names]

    def same(t, w):
        return (t is not None) and ((Decimal(t) == w) if isinstance(w, Decimal) and _isnum(t) else (t == w))

    if len(toks) != len(want):
        bad = None
        for i, (n, w) in enumerate(zip(names, want)):
            if not same(toks[i] if i < len(toks) else None, w):
                bad = n
                break
        bad = bad or "ins_code"
        if exp["ins_code"] != "" and bad == "res_seq":
            bad = "ins_code"
        return ("ws", fieldname(bad), "merged", f"whitespace layout: {len(toks)} tokens instead of {len(want)} (first bad field {bad}): {line!r}")
    for n, w, t in zip(names, want, toks):
        if not same(t, w):
            kind, f = "truncated", fieldname(n)
            if n == "res_seq" and exp["ins_code"] != "":
                f, kind = "ins_code", "merged"
            return ("ws", f, kind, f"whitespace layout: token for {n} is {t!r}, expected {w!r}: {line!r}")
    # pdb2pqr's own reader
    if isinstance(reader_result, str):
        return ("ws", "line", "reader-error", f"Atom.from_pqr_line raised {reader_result} on a line pdb2pqr wrote: {line!r}")
    exp2 = dict(exp)
    exp2["ins_code"] = ""  # no token carries it in this layout
    k = first_diff(exp2, reader_result)
    if k is not None:
        return ("ws", fieldname(k), "reader-mismatch", f"Atom.from_pqr_line reads field {k} as {reader_result.get(k)!r}, model has {exp[k]!r}: {line!r}")
    return None


def real_line(a, kc, ws):
    line = mk_atom(a).get_pqr_string(chainflag=kc)
    return (real_respace_one(line) if ws else line) + "\n"


def problem_real(a, kc, ws):
    out = real_line(a, kc, ws)
    return problem(a, kc, ws, out, impl_fromline(out) if ws else None)


def minimise(a, kc, ws):
    """reset every field that is not needed for the failure to its BASE value"""
    a = dict(a)
    if ws and problem_real(a, kc, False) is not None:
        ws = False
    for k in FIELDS:
        if a[k] == BASE[k]:
            continue
        trial = {**a, k: BASE[k]}
        if problem_real(trial, kc, ws) is not None:
            a = trial
    if kc and problem_real(a, False, ws) is not None:
        kc = False
    return a, kc, ws


_seen_classes = set()


def oracle_line(ctx: Ctx, a, kc, ws, line, reader_result):
    if len(a["name"]) > 4 or len(a["res_name"]) > 4 or len(a["chain_id"]) > 1:
        ctx.count("outside-property-domain(long names)")
        return True  # the property quantifies over 1-4 character names and one-character chains
    pr = problem(a, kc, ws, line, reader_result)
    if pr is None:
        return True
    # minimise one representative per rough class, then take the signature from the minimised atom
    rough = (pr[0], pr[1], pr[2], kc, tuple(k for k in FIELDS if a[k] != BASE[k] and not fits({**BASE, k: a[k]}, True)))
    if rough in _seen_classes and len(_seen_classes) > 0:
        ctx.count("violations-not-minimised(same rough class)")
        ctx.violations_dupe = getattr(ctx, "violations_dupe", 0) + 1
        return False
    _seen_classes.add(rough)
    ma, mkc, mws = minimise(a, kc, ws)
    mpr = problem_real(ma, mkc, mws)
    if mpr is None:  # cannot happen: minimise keeps a failing case
        mpr, ma, mkc, mws = pr, a, kc, ws
    essential = sorted({fieldname(k) for k in FIELDS if ma[k] != BASE[k]})
    # "domain": whether the minimised atom satisfies the hypothesis of the round-trip theorem (Fits / FitsWs).
    # Every recorded format limit lies outside it; a failure inside it contradicts theorem + tie and is never masked.
    inside = fits_ws(ma, mkc) if mws else fits(ma, mkc)
    sig = {"layout": mpr[0], "field": mpr[1], "kind": mpr[2], "needs": ",".join(essential), "keep_chain": mkc, "domain": "inside-Fits" if inside else "outside-Fits"}
    ctx.violate(sig, mpr[3], {"atom": ma, "keep_chain": mkc, "whitespace": mws, "original": {"atom": a, "keep_chain": kc, "whitespace": ws}})
    return False


def _isnum(t):
    try:
        Decimal(t)
        return True
    except Exception:
        return False


def width_class(a, kc, ws):
    def w(v, k):
        if v is None:
            return "N"
        neg, mag = quant(v, k)
        return len(("-" if neg else "") + str(mag // 10**k)) + 1 + k

    return (
        a["type"],
        len(str(a["serial"])),
        len(a["name"]),
        len(a["res_name"]),
        len(a["chain_id"]),
        len(str(a["res_seq"])),
        len(a["ins_code"]),
        w(a["x"], 3),
        w(a["y"], 3),
        w(a["z"], 3),
        w(a["charge"], 4),
        w(a["radius"], 4),
        kc,
        ws,
    )


def real_write(atoms, kc, ws, is_cif):
    """real print_biomolecule_atoms + print_pqr -> file text"""
    import logging

    from pdb2pqr import io as pio
    from pdb2pqr import main as pmain

    logging.getLogger("pdb2pqr").setLevel(logging.ERROR)
    objs = [mk_atom(a) for a in atoms]
    lines = pio.print_biomolecule_atoms(objs, kc)
    fd, path = tempfile.mkstemp(suffix=".pqr", prefix="c08_")
    os.close(fd)
    try:
        ns = argparse.Namespace(output_pqr=path, whitespace=ws)
        pmain.print_pqr(args=ns, pqr_lines=lines, header_lines="", missing_lines=None, is_cif=is_cif)
        with open(path, newline="") as f:
            text = f.read()
        with open(path) as f:
            try:
                back = [impl_fields(x) for x in pio.read_pqr(f)]
            except ValueError:
                back = "ValueError"
            except IndexError:
                back = "IndexError"
    finally:
        os.unlink(path)
    return text, back


MALFORMED = [
    "",
    "\n",
    "REMARK   1 something\n",
    "TER\n",
    "END",
    "HEADER x\n",
    "ATOM\n",
    "ATOM 1\n",
    "ATOM x N ALA 1 0 0 0 0 0\n",
    "ATOM 1 N ALA\n",
    "ATOM 1 N ALA A\n",
    "ATOM 1 N ALA A B 0 0 0 0 0\n",
    "ATOM 1 N ALA 1\n",
    "ATOM 1 N ALA 1 A\n",
    "ATOM 1 N ALA 1 A B 0 0 0 0\n",
    "ATOM 1 N ALA 1 1.0 2.0\n",
    "ATOM 1 N ALA 1 1.0 2.0 3.0 0.1\n",
    "ATOM 1 N ALA 1 1.0 2.0 x 0.1 1.0\n",
    "ATOM 1 N ALA 1 1.0 2.0 3.0 0.1 1.0 extra\n",
    "ATOM12345 N ALA 1 1.0 2.0 3.0 0.1 1.0\n",
    "HETATM12345 N ALA 1 1.0 2.0 3.0 0.1 1.0\n",
    "ATOMS 1 N ALA 1 1.0 2.0 3.0 0.1 1.0\n",
    "ANISOU 1 N ALA 1 1.0 2.0 3.0 0.1 1.0\n",
    "atom 1 N ALA 1 1.0 2.0 3.0 0.1 1.0\n",
    "ATOM 1 N ALA A 1 1e3 .5 5. -0.1e-2 +1.0\n",
    "ATOM 1 N ALA 1 inf nan -inf 0 0\n",
    "ATOM 1 N ALA 1 Infinity NaN 0 0 0\n",
    "ATOM +1 N ALA -1 1 2 3 4 5\n",
    "ATOM 1 N ALA 1 . 2 3 4 5\n",
    "ATOM 1 N ALA 1 1.2.3 2 3 4 5\n",
    "ATOM 1 N ALA 1 1e 2 3 4 5\n",
    "ATOM 1 N ALA 1 e1 2 3 4 5 6\n",
    "ATOM 1 N ALA 1 - 2 3 4 5 6\n",
    "ATOM\t1\tN\tALA\t1\t1.0\t2.0\t3.0\t0.1\t1.0\r\n",
]


def run(ctx: Ctx):
    rng = ctx.rng
    n_atoms = ctx.scale(6000, 300000)
    n_files = ctx.scale(60, 1500)
    n_lines = ctx.scale(1500, 40000)
    have_model = ctx.driver.available()
    ctx.extra["rule"] = (
        "random atom records (log-uniform magnitudes inside and beyond every column width) x keep_chain x whitespace; "
        "a case is the tuple of field-width classes and flags; distinct = distinct tuples; trivial cases (none) excluded; "
        "plus main_driver end to end on generated multi-chain structures and offline PDB files for {force-field run, --clean, --assign-only} x "
        "--whitespace x --keep-chain, the written file read back against the returned biomolecule's atoms and against the chain IDs of the input "
        "(a case = input x mode x flags; runs that write no file are counted under e2e-status and excluded)"
    )

    # ---- stored witnesses of known findings and the corpus run first
    base = BASE
    witnesses = [
        ({**base, "serial": 123456}, False, False),
        ({**base, "res_seq": 12345}, False, False),
        ({**base, "res_seq": -1234}, False, False),
        ({**base, "x": 12345.678}, False, False),
        ({**base, "y": -1234.567}, False, False),
        ({**base, "charge": -100.5}, False, False),
        ({**base, "radius": 100.25}, False, False),
        ({**base, "res_seq": 1234}, True, True),
        ({**base, "ins_code": "B"}, False, True),
        ({**base, "charge": -10.5}, False, True),
        ({**base, "radius": 10.25}, False, True),
        ({**base, "chain_id": "7"}, True, True),
    ]
    cases = list(witnesses)
    for _ in range(n_atoms):
        wide = rng.random() < 0.35
        cases.append((gen_atom(rng, wide), rng.random() < 0.5, rng.random() < 0.5))

    # ---- tie 1: single lines (formatter, re-spacing, both readers)
    from pdb2pqr.structures import Atom  # noqa: F401

    reqs = []
    impl = []
    raw = [mk_atom(a).get_pqr_string(chainflag=kc) for a, kc, ws in cases]
    ws_idx = [i for i, c in enumerate(cases) if c[2]]
    respaced = real_respace([raw[i] for i in ws_idx])
    outs = list(raw)
    for i, o in zip(ws_idx, respaced):
        outs[i] = o
    for i, (a, kc, ws) in enumerate(cases):
        line, out = raw[i], outs[i]
        rr = impl_fromline(out + "\n")
        impl.append((line, out, rr))
        reqs.append(f"pqr.fmt\t{int(kc)}\t{enc_atom(a)}")
        reqs.append(f"pqr.fromline\t{hexs(out + chr(10))}")
        reqs.append(f"pqr.fits\t{int(kc)}\t{enc_atom(a)}")
        if ws:
            reqs.append(f"pqr.write\t1\t{int(kc)}\t0\t{enc_atom(a)}")
    answers = ctx.driver.ask(reqs) if have_model else None
    pos = 0
    for i, (a, kc, ws) in enumerate(cases):
        line, out, rr = impl[i]
        base_i = pos
        pos += 4 if ws else 3
        ctx.evaluations += 1
        ctx.distinct.add(width_class(a, kc, ws))
        inside = fits_ws(a, kc) if ws else fits(a, kc)
        ctx.count("domain", "inside-Fits" if inside else "outside-Fits")
        ctx.count("flags", f"kc={int(kc)},ws={int(ws)}")
        if answers is not None:
            mline = unhexs(answers[base_i])
            mread = dec_fields(answers[base_i + 1]) if "," in answers[base_i + 1] else answers[base_i + 1]
            # the harness's domain split must be the Lean predicates Fits / FitsWs
            if answers[base_i + 2] != f"{int(fits(a, kc))}{int(fits_ws(a, kc))}" and len(a["name"]) <= 4:
                ctx.disagree("Fits/FitsWs (harness vs Lean)", {"atom": a, "kc": kc}, answers[base_i + 2], f"{int(fits(a, kc))}{int(fits_ws(a, kc))}")
            if ws and a["serial"] == 1:
                # model of print_pqr's re-spacing on this very line (serial 1 = what the writer would number it)
                mout = unhexs(answers[base_i + 3]).split("\n")[0]
                if mout != out:
                    (ctx.disagree if inside else _outside(ctx))("print_pqr(whitespace)", {"atom": a, "kc": kc}, mout, out)
            if mline != line:
                (ctx.disagree if inside else _outside(ctx))("Atom.get_pqr_string", {"atom": a, "kc": kc}, mline, line)
            if not same_fields(mread, rr):
                (ctx.disagree if inside else _outside(ctx))("Atom.from_pqr_line", {"line": out}, mread, rr)
        ok = oracle_line(ctx, a, kc, ws, out + "\n", rr)
        ctx.count("oracle", "holds" if ok else "fails")
        if inside and not ok:
            # the proved theorem says this cannot happen for the model; so model and code differ
            ctx.notes.append(f"oracle failed inside Fits: {a} kc={kc} ws={ws}")
        if i < 3 or (not ok and len(ctx.samples) < 6):
            ctx.sample({"atom": a, "keep_chain": kc, "whitespace": ws, "written": out, "property_holds": ok})

    # ---- tie 2: whole files through the real print_biomolecule_atoms / print_pqr / read_pqr
    reqs, impl = [], []
    for _ in range(n_files):
        n = rng.choice([0, 1, 2, 3, 5, 8, 13, 40])
        kc, ws, cif = rng.random() < 0.5, rng.random() < 0.5, rng.random() < 0.25
        chain_pool = rng.sample(string.ascii_uppercase, 3) + [""]
        atoms = []
        ch = rng.choice(chain_pool)
        for _j in range(n):
            a = gen_atom(rng, rng.random() < 0.1)
            if rng.random() < 0.2:
                ch = rng.choice(chain_pool)
            a["chain_id"] = ch
            atoms.append(a)
        text, back = real_write(atoms, kc, ws, cif)
        impl.append((atoms, kc, ws, cif, text, back))
        reqs.append(f"pqr.write\t{int(ws)}\t{int(kc)}\t{int(cif)}\t{';'.join(enc_atom(a) for a in atoms)}")
        reqs.append(f"pqr.read\t{hexs(text)}")
    answers = ctx.driver.ask(reqs) if have_model else None
    for i, (atoms, kc, ws, cif, text, back) in enumerate(impl):
        ctx.evaluations += 1
        ctx.count("files", f"n={len(atoms)}")
        # serials are renumbered by the writer
        renum = [{**a, "serial": j + 1} for j, a in enumerate(atoms)]
        inside = all((fits_ws if ws else fits)(a, kc) for a in renum)
        if answers is not None:
            mtext = unhexs(answers[2 * i])
            if mtext != text:
                (ctx.disagree if inside else _outside(ctx))("print_biomolecule_atoms+print_pqr", {"atoms": atoms, "kc": kc, "ws": ws, "cif": cif}, mtext, text)
            ans = answers[2 * i + 1]
            mback = ans if ans in ("ValueError", "IndexError") else ([dec_fields(x) for x in ans.split(";")] if ans else [])
            same = (mback == back) if isinstance(back, str) or isinstance(mback, str) else (len(mback) == len(back) and all(same_fields(x, y) for x, y in zip(mback, back)))
            if not same:
                (ctx.disagree if inside else _outside(ctx))("io.read_pqr", {"text": text}, mback, back)
        # oracle: the file has one atom line per atom, in order, each satisfying the line property;
        atom_lines = [l for l in text.split("\n") if l[:4] == "ATOM" or l[:6] == "HETATM"]
        if len(atom_lines) != len(atoms):
            ctx.violate({"layout": "ws" if ws else "fixed", "field": "file", "kind": "dropped"}, f"{len(atoms)} atoms, {len(atom_lines)} atom lines written", {"atoms": atoms, "keep_chain": kc, "whitespace": ws, "cif": cif})
            continue
        for a, l in zip(renum, atom_lines):
            oracle_line(ctx, a, kc, ws, l + "\n", impl_fromline(l + "\n") if ws else None)
        if ws and inside and not isinstance(back, str):
            if len(back) != len(atoms):
                ctx.violate({"layout": "ws", "field": "file", "kind": "dropped"}, "io.read_pqr returns a different number of atoms", {"atoms": atoms, "keep_chain": kc, "whitespace": ws, "cif": cif})

    # ---- tie 3: the reader on malformed and perturbed lines
    lines = list(MALFORMED)
    pool = [o for (_l, o, _r) in impl_lines_pool(cases, 400, rng)]
    for _ in range(n_lines):
        l = rng.choice(pool)
        toks = l.split()
        r = rng.random()
        if r < 0.25 and toks:
            del toks[rng.randrange(len(toks))]
        elif r < 0.5 and toks:
            toks.insert(rng.randrange(len(toks) + 1), rng.choice(["A", "1", "x.y", "1e5", "-", "+3", ".5", "5.", "nan", "INF", "1_0", "0x10", "١"]))
        elif r < 0.7 and toks:
            j = rng.randrange(len(toks))
            toks[j] = toks[j][: rng.randrange(len(toks[j]) + 1)] or "?"
        elif r < 0.8:
            toks = toks[: rng.randrange(len(toks) + 1)]
        sep = rng.choice([" ", "  ", "\t"])
        l2 = sep.join(toks) + rng.choice(["\n", "", "\r\n", " \n"])
        if all(ord(c) < 128 for c in l2) and "_" not in l2:
            lines.append(l2)
    reqs = [f"pqr.fromline\t{hexs(l)}" for l in lines]
    answers = ctx.driver.ask(reqs) if have_model else None
    for i, l in enumerate(lines):
        rr = impl_fromline(l)
        ctx.evaluations += 1
        kind = rr if isinstance(rr, str) else "atom"
        ctx.count("reader-outcome", kind)
        ctx.distinct.add(("reader", kind, len(l.split())))
        if answers is not None:
            ans = answers[i]
            mread = dec_fields(ans) if "," in ans else ans
            if not same_fields(mread, rr):
                ctx.disagree("Atom.from_pqr_line(malformed)", {"line": l}, mread, rr)

    # ---- tie 4: the whole program, every writer call site x --whitespace x --keep-chain
    run_e2e(ctx)


def impl_lines_pool(cases, n, rng):
    sel = rng.sample(cases, min(n, len(cases)))
    lines = [mk_atom(a).get_pqr_string(chainflag=kc) for a, kc, ws in sel]
    return [(l, o, None) for l, o in zip(lines, real_respace(lines))]


def real_respace(lines):
    """the real main.print_pqr with whitespace=True applied to atom lines"""
    import logging

    from pdb2pqr import main as pmain

    logging.getLogger("pdb2pqr").setLevel(logging.ERROR)
    if not lines:
        return []
    fd, path = tempfile.mkstemp(suffix=".pqr", prefix="c08_")
    os.close(fd)
    try:
        ns = argparse.Namespace(output_pqr=path, whitespace=True)
        pmain.print_pqr(args=ns, pqr_lines=[l + "\n" for l in lines], header_lines="", missing_lines=None, is_cif=False)
        with open(path, newline="") as f:
            out = f.read().split("\n")
    finally:
        os.unlink(path)
    if out and out[-1] == "":
        out.pop()
    if len(out) != len(lines):
        # a line was dropped or split by the writer: keep positions aligned by falling back per line
        res = []
        for l in lines:
            r = real_respace_one(l)
            res.append(r)
        return res
    return out


def real_respace_one(line):
    from pdb2pqr import main as pmain

    fd, path = tempfile.mkstemp(suffix=".pqr", prefix="c08_")
    os.close(fd)
    try:
        ns = argparse.Namespace(output_pqr=path, whitespace=True)
        pmain.print_pqr(args=ns, pqr_lines=[line + "\n"], header_lines="", missing_lines=None, is_cif=False)
        with open(path, newline="") as f:
            return f.read().rstrip("\n")
    finally:
        os.unlink(path)


def _outside(ctx):
    def f(where, inp, model, impl):
        ctx.count("outside-domain-differences", where)
        if len(ctx.notes) < 20:
            ctx.notes.append(f"outside Fits, model and code differ at {where}: input={inp} model={model!r} impl={impl!r}")

    return f


# ------------------------------------------------- tie 4: end to end through main_driver
# The property's observation point is "bytes of the PQR file vs. atoms of the returned biomolecule" for
# all flag combinations; the writer is reached from three places in main_driver (force-field run,
# --clean, --assign-only), each of which passes the flags on by itself.

E2E_MODES = ("ff", "clean", "assign-only")
E2E_FFS = ["AMBER", "PARSE", "CHARMM", "SWANSON", "TYL06", "PEOEPB"]


def e2e_options(mode, ff, ws, kc):
    opts = {"ff": [f"--ff={ff}"], "clean": ["--clean"], "assign-only": [f"--ff={ff}", "--assign-only"]}[mode]
    return opts + (["--whitespace"] if ws else []) + (["--keep-chain"] if kc else [])


def gen_e2e_input(rng):
    """a small structure with 2-3 chains (distinct one-letter IDs, upper and lower case), residue
    numbers from negative to four digits, optionally an insertion code and chain-labelled waters"""
    import gen_struct as G

    nch = rng.choice([2, 2, 3])
    ids = rng.sample(string.ascii_uppercase + string.ascii_lowercase, nch + 1)
    chains, feats = [], set()
    for ci in range(nch):
        _f, res = G.window(rng, rng.choice([2, 3, 4]))
        G.rigid(res, G.rotation(rng), (70.0 * ci, rng.uniform(-20, 20), rng.uniform(-20, 20)))
        start = rng.choice([1, 1, 7, 42, -3, 98, 480, 997, 2345])
        G.set_chain(res, ids[ci], start)
        if start < 0:
            feats.add("negative-resnum")
        if start + len(res) > 1000:
            feats.add("4-digit-resnum")
        if len(res) >= 3 and rng.random() < 0.2:
            # residue k shares the number of residue k-1 and carries an insertion code
            k = rng.randint(1, len(res) - 1)
            for j in range(k, len(res)):
                for a in res[j]:
                    a.resseq -= 1
            for a in res[k]:
                a.ins = "A"
            feats.add("insertion-code")
        chains.append(res)
    waters = []
    if rng.random() < 0.5:
        wid = rng.choice([ids[nch - 1], ids[-1]])  # a water chain of its own or the last chain's ID
        c = G.centroid(chains[-1])
        waters = [G.water(rng, wid, 3000 + i, (c[0] + 40.0, c[1], c[2]), 6.0) for i in range(rng.randint(1, 2))]
        feats.add("water")
    return G.to_pdb(chains, waters), feats


def input_records(text):
    """(chain, resSeq, iCode, resName, hetero) of every ATOM/HETATM record of a PDB text (first model)"""
    out = []
    for l in text.splitlines():
        if l.startswith("ENDMDL"):
            break
        if l.startswith(("ATOM  ", "HETATM")) and len(l) >= 54:
            try:
                out.append((l[21].strip(), int(l[22:26]), l[26].strip(), l[17:20].strip(), l.startswith("HETATM")))
            except ValueError:
                pass
    return out


def runs(seq):
    out = []
    for x in seq:
        if not out or out[-1] != x:
            out.append(x)
    return out


def model_fields(at):
    """the computed model: one atom of the biomolecule main_driver returns"""
    return {
        "type": at.type,
        "serial": at.serial,
        "name": at.name,
        "res_name": at.res_name,
        "chain_id": at.chain_id or "",
        "res_seq": at.res_seq,
        "ins_code": at.ins_code or "",
        "x": at.x,
        "y": at.y,
        "z": at.z,
        "charge": at.ffcharge,
        "radius": at.radius,
    }


def file_chain_resseq(line, ws):
    """chain and residue number of one written atom record, read without any model knowledge.
    Chain IDs of this stream are letters, so a leading letter of the residue part is the chain
    even where it is glued to the number (a recorded format limit the line oracle reports)."""
    import re

    if not ws:
        chain = line[21:22].strip()
        try:
            return chain, int(line[22:26])
        except ValueError:
            return chain, None
    toks = line.split()
    mid = "".join(toks[4:-5])  # between the residue name and x y z charge radius
    chain = mid[0] if mid[:1].isalpha() else ""
    m = re.fullmatch(r"(-?\d+)[A-Za-z]?", mid[len(chain) :])
    return chain, (int(m.group(1)) if m else None)


def e2e_prepare(text, mode):
    """--assign-only is meant for complete structures: hydrogenate first. The hydrogenated file is then
    *the input*; it is used only if it still carries the chain IDs of the generated one."""
    import gen_struct as G

    if mode != "assign-only":
        return text, "as-generated"
    pre = G.run_pipeline(text, ["--ff=AMBER", "--keep-chain", "--pdb-output=@DIR@/out.pdb"])
    hyd = pre.extra_files.get("out.pdb") if pre.status == "ok" else None
    if hyd and sorted(runs([r[0] for r in input_records(hyd)])) == sorted(runs([r[0] for r in input_records(text)])):
        return hyd, "hydrogenated"
    return text, "hydrogenation-unusable"


def e2e_check(text, mode, ff, ws, kc, strict=True, suffix=".pdb"):
    """one main_driver run; -> (status, n_lines, problems). A problem is
    (level, signature-or-None, what, atom-or-None, line): level "driver" = the file differs from the model /
    the request although the formatter alone writes that atom correctly; level "formatter" = the single-line
    property fails for the model atom (handled, minimised and classified by oracle_line)."""
    import gen_struct as G

    opts = e2e_options(mode, ff, ws, kc)
    r = G.run_pipeline(text, opts, suffix=suffix)
    if r.status != "ok" or r.pqr is None or r.biomolecule is None:
        return r.status if r.status != "ok" else "no-output", 0, []
    layout = "ws" if ws else "fixed"
    base_sig = {"stream": "main_driver", "mode": mode, "layout": layout, "keep_chain": kc}
    problems = []
    clean = mode == "clean"
    model = [model_fields(at) for at in r.biomolecule.atoms if clean or (at.ffcharge is not None and at.radius is not None)]
    atom_lines = [l for l in r.pqr.split("\n") if l[:4] == "ATOM" or l[:6] == "HETATM"]
    # ---- (a) against the computed model
    if len(atom_lines) != len(model):
        problems.append(("driver", {**base_sig, "field": "file", "kind": "dropped"}, f"main_driver {' '.join(opts)}: {len(model)} model atoms with parameters, {len(atom_lines)} atom records written", None, None))
    else:
        for a, l in zip(model, atom_lines):
            if len(a["name"]) > 4 or len(a["res_name"]) > 4 or len(a["chain_id"]) > 1:
                continue
            rr = impl_fromline(l + "\n") if ws else None
            pr = problem(a, kc, ws, l + "\n", rr)
            if pr is None:
                continue
            if real_line(a, kc, ws).rstrip("\n") == l:
                problems.append(("formatter", None, pr[3], a, l))
            else:
                problems.append(("driver", {**base_sig, "field": pr[1], "kind": pr[2]}, f"main_driver {' '.join(opts)}: {pr[3]}", a, l))
                break
    # ---- (b) against the request: the chain IDs of the input file
    recs = input_records(text)
    in_keys = {(c, n) for c, n, _i, _r, _h in recs}
    in_chains = {c for c, _n, _i, _r, _h in recs}
    got = [file_chain_resseq(l, ws) for l in atom_lines]
    bad = None
    if not kc:
        for (c, _n), l in zip(got, atom_lines):
            if c != "":
                bad = ("chain-not-requested", f"chain {c!r} written although --keep-chain was not given: {l!r}")
                break
    else:
        for (c, n), l in zip(got, atom_lines):
            if c not in in_chains or (n is not None and (c, n) not in in_keys):
                bad = ("differs-from-input", f"record carries chain {c!r}, residue number {n}; the input file has no such residue (its chains: {sorted(in_chains)}): {l!r}")
                break
        if bad is None and atom_lines:
            polymer = {c for c, _n, _i, rn, h in recs if not h}
            missing = sorted(polymer - {c for c, _n in got})
            if missing:
                bad = ("chain-lost", f"chain(s) {missing} of the input's ATOM records appear on no written record")
            elif strict and sorted(runs([c for c, _n in got])) != sorted(runs([c for c, _n, _i, _r, _h in recs])):
                # pdb2pqr writes the chains sorted by ID, so only the partition into runs is compared, not their order
                bad = ("chain-runs", f"chain runs written {runs([c for c, _n in got])}, input file has {runs([c for c, _n, _i, _r, _h in recs])}")
    if bad is not None:
        problems.append(("driver", {**base_sig, "field": "chain_id", "kind": bad[0]}, f"main_driver {' '.join(opts)}: {bad[1]}", None, None))
    return "ok", len(atom_lines), problems


def e2e_report(ctx: Ctx, text, mode, ff, ws, kc, strict, problems, source):
    ok = True
    for level, sig, what, a, l in problems:
        if level == "formatter":
            # same classification / minimisation / known-finding signatures as the single-line streams
            oracle_line(ctx, a, kc, ws, l + "\n", impl_fromline(l + "\n") if ws else None)
            ctx.count("e2e-formatter-level-failures(line oracle)")
            continue
        ok = False
        ctx.violate(sig, what, {"e2e": {"pdb": text, "mode": mode, "ff": ff, "whitespace": ws, "keep_chain": kc, "strict": strict, "source": source}})
    return ok


def run_e2e(ctx: Ctx):
    import gen_struct as G

    rng = ctx.rng
    inputs = []
    for i in range(ctx.scale(5, 60)):
        text, feats = gen_e2e_input(rng)
        inputs.append((f"generated-{i}", text, True, feats))
    for fn in ["1QBS.pdb"] + (["1AFS.pdb"] if ctx.thorough else []):
        p = G.DATA / fn
        if p.exists():
            inputs.append((fn, p.read_text(), False, {"real"}))
    for source, text0, strict, feats in inputs:
        ff = rng.choice(E2E_FFS) if strict else "AMBER"
        for f in feats:
            ctx.count("e2e-input-features", f)
        ctx.count("e2e-input-chains", len({r[0] for r in input_records(text0)}))
        for mode in E2E_MODES:
            text, prep = e2e_prepare(text0, mode)
            if mode == "assign-only":
                ctx.count("e2e-assign-only-input", prep)
            for ws in (False, True):
                for kc in (False, True):
                    status, n, problems = e2e_check(text, mode, ff, ws, kc, strict)
                    ctx.evaluations += 1
                    ctx.count("e2e-runs", f"{mode},ws={int(ws)},kc={int(kc)}")
                    ctx.count("e2e-status", status)
                    if status != "ok":
                        continue  # no file, nothing to read back (not this property's business)
                    ctx.count("e2e-records-read-back", n=n)
                    ctx.distinct.add(("e2e", source, mode, ws, kc))
                    ok = e2e_report(ctx, text, mode, ff, ws, kc, strict, problems, source)
                    ctx.count("e2e-oracle", "holds" if ok and not problems else "formatter-level-only" if ok else "fails")
                    if source == "generated-0" and mode == "clean" and ws and kc:
                        ctx.sample({"stream": "main_driver", "options": e2e_options(mode, ff, ws, kc), "records": n, "property_holds": ok}, limit=8)


def replay(ctx: Ctx, data: dict) -> bool:
    rp = data.get("replay", data)
    if "e2e" in rp:
        e = rp["e2e"]
        status, n, problems = e2e_check(e["pdb"], e["mode"], e["ff"], e["whitespace"], e["keep_chain"], e.get("strict", True))
        print(f"main_driver {' '.join(e2e_options(e['mode'], e['ff'], e['whitespace'], e['keep_chain']))}: status {status}, {n} atom records")
        hit = False
        for level, sig, what, a, l in problems:
            print("  ", level, what)
            hit = hit or level == "driver"  # formatter-level failures have their own (single-atom) replays
        return hit
    if "atom" in rp:
        a, kc, ws = rp["atom"], rp["keep_chain"], rp["whitespace"]
        at = mk_atom(a)
        line = at.get_pqr_string(chainflag=kc)
        out = real_respace_one(line) if ws else line
        pr = problem(a, kc, ws, out + "\n", impl_fromline(out + "\n"))
        print("written line:", repr(out))
        if pr:
            print("  ", pr)
        return pr is not None
    return False
