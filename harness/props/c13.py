"""C13 — disulfide bridges are detected symmetrically and exclusively.

Tie: real Biomolecule.update_ss_bridges (+ add_hydrogens / CYS.set_state) through main_driver vs
the Lean model P2P.Model.SS (nested-loop scan over the SG atoms with the exact squared distance).
Oracle: the property itself on the returned biomolecule."""

from __future__ import annotations

import math
from decimal import Decimal

import gen_struct as G
from core import Ctx

import gen.consts as genconsts

GENERATORS = (genconsts.generate,)
TRUSTED_BASE = [
    "Lean 4.33.0 kernel; axioms ⊆ {propext, Classical.choice, Quot.sound}",
    "hand-written model lean/P2P/Model/SS.lean tied to biomolecule.update_ss_bridges by differential execution; BONDED_SS_LIMIT regenerated from config.py each run",
    "float norm within 1e-6 of the limit is not modelled (the generator keeps SG-SG distances at least 1e-6 away from 2.5 A)",
]
ASSUMPTIONS = ["input coordinates with three decimals (PDB format), so squared distances are exact integers in the model"]


def sg(res):
    return next((a for a in res if a.name == "SG"), None)


def dist(a, b):
    return math.dist((a.x, a.y, a.z), (b.x, b.y, b.z))


_cys_sites = None


def cys_sites():
    """[(segment index, residue index)] of cysteines with SG in the pool"""
    global _cys_sites
    if _cys_sites is None:
        _cys_sites = []
        for si, (_f, run) in enumerate(G.segments()):
            for ri, r in enumerate(run):
                if r[0].resn == "CYS" and sg(r) is not None:
                    _cys_sites.append((si, ri))
    return _cys_sites


def fragment(rng, site, n=None):
    si, ri = site
    _f, run = G.segments()[si]
    n = n or rng.choice([1, 2, 3, 4])
    start = max(0, min(ri - rng.randint(0, n - 1), len(run) - n))
    res = [[a.copy() for a in r if not (a.elem == "H" or a.name[0] == "H")] for r in run[start : start + n]]
    return res, ri - start


def place(rng, frag1, i1, frag2, i2, d):
    """rigidly move frag2 so that SG2 is at distance d from SG1, on the far side of frag1's centroid"""
    G.rigid(frag2, G.rotation(rng), (0, 0, 0))
    s1 = sg(frag1[i1])
    c = G.centroid(frag1)
    u = [s1.x - c[0], s1.y - c[1], s1.z - c[2]]
    n = math.sqrt(sum(x * x for x in u)) or 1.0
    u = [x / n + rng.uniform(-0.2, 0.2) for x in u]
    n = math.sqrt(sum(x * x for x in u))
    u = [x / n for x in u]
    s2 = sg(frag2[i2])
    t = (s1.x + d * u[0] - s2.x, s1.y + d * u[1] - s2.y, s1.z + d * u[2] - s2.z)
    G.rigid(frag2, [[1, 0, 0], [0, 1, 0], [0, 0, 1]], t)


def round3(frags):
    for fr in frags:
        for r in fr:
            for a in r:
                a.x, a.y, a.z = round(a.x, 3), round(a.y, 3), round(a.z, 3)


def exact_d2(a, b):
    return sum((Decimal(repr(round(p, 3))) - Decimal(repr(round(q, 3)))) ** 2 for p, q in ((a.x, b.x), (a.y, b.y), (a.z, b.z)))


def gen_case(rng):
    feats = set()
    sites = cys_sites()
    s1 = rng.choice(sites)
    frag1, i1 = fragment(rng, s1)
    frags = [frag1]
    cls = rng.choice(["bonded", "bonded", "edge-in", "edge-out", "far", "free", "third"])
    if cls != "free":
        s2 = rng.choice(sites)
        frag2, i2 = fragment(rng, s2)
        d = {"bonded": rng.uniform(1.9, 2.2), "edge-in": 2.5 - rng.choice([1e-3, 2e-3, 0.05]), "edge-out": 2.5 + rng.choice([1e-3, 2e-3, 0.05]), "far": rng.uniform(3.0, 8.0), "third": rng.uniform(1.9, 2.3)}[cls]
        place(rng, frag1, i1, frag2, i2, d)
        frags.append(frag2)
        if cls == "third":
            s3 = rng.choice(sites)
            frag3, i3 = fragment(rng, s3, 1)
            place(rng, frag2, i2, frag3, i3, rng.uniform(1.9, 2.4))
            frags.append(frag3)
    feats.add(cls)
    round3(frags)
    order = list(range(len(frags)))
    if rng.random() < 0.5:
        order.reverse()
        feats.add("reversed-order")
    same_chain = rng.random() < 0.4
    feats.add("same-chain" if same_chain else "different-chains")
    start = rng.choice([1, 10, 200])
    # equivalent cysteines of two chains of a homodimer carry the same residue number
    same_number = (not same_chain) and len(frags) >= 2 and rng.random() < 0.35
    cys_index = {0: i1}
    if len(frags) >= 2:
        cys_index[1] = i2
    if same_number:
        feats.add("same-residue-number")
    cys_number = start + max(cys_index.values()) if same_number else None
    chains = []
    for k, fi in enumerate(order):
        fr = frags[fi]
        if same_number and fi in cys_index:
            start = cys_number - cys_index[fi]
        G.set_chain(fr, "A" if same_chain else "ABC"[k], start)
        start += len(fr) + rng.choice([0, 3, 50])
        if not same_chain:
            start = rng.choice([1, 10, 200])
        chains.append(fr)
    text = G.to_pdb(chains, ter=True)
    opts = ["--ff=" + rng.choice(["AMBER", "AMBER", "CHARMM", "PARSE", "SWANSON", "TYL06"]), "--whitespace", "--keep-chain"]
    if rng.random() < 0.5:
        opts.append("--nodebump")
    if rng.random() < 0.5:
        opts.append("--noopt")
    return text, opts, feats


def observe(bio, text):
    """CYS-class residues with SG in residue order: list of dicts; coordinates are the INPUT ones
    (debumping may rotate SG afterwards; bridges are detected before)"""
    from pdb2pqr import aa

    inp = {}
    for l in text.splitlines():
        if l.startswith("ATOM") and l[12:16].strip() == "SG":
            inp[(l[21], int(l[22:26]))] = tuple(float(l[a:b]) for a, b in ((30, 38), (38, 46), (46, 54)))
    out = []
    for r in bio.residues:
        if isinstance(r, aa.CYS) and r.has_atom("SG"):
            p = r.ss_bonded_partner
            out.append({"res": str(r), "name": r.name, "xyz": inp[(r.chain_id, r.res_seq)], "bonded": bool(r.ss_bonded), "partner": str(p.residue) if p is not None else None, "HG": r.has_atom("HG"), "ffname": r.ffname, "n": bool(r.is_n_term), "c": bool(r.is_c_term)})
    return out


def input_sg(text):
    """SG coordinates of CYS residues from the input text, exact thousandths"""
    out = []
    for l in text.splitlines():
        if l.startswith("ATOM") and l[12:16].strip() == "SG":
            out.append(tuple(int(Decimal(l[a:b].strip()) * 1000) for a, b in ((30, 38), (38, 46), (46, 54))))
    return out


def check(obs, lim2=2500 * 2500):
    """the property on the observation; returns list of (signature, message)"""
    pr = []
    pts = [tuple(int(round(c * 1000)) for c in o["xyz"]) for o in obs]

    def d2(i, j):
        return sum((pts[i][k] - pts[j][k]) ** 2 for k in range(3))

    n = len(obs)
    close = [[i != j and d2(i, j) < lim2 for j in range(n)] for i in range(n)]
    for i in range(n):
        nb = [j for j in range(n) if close[i][j]]
        o = obs[i]
        if len(nb) == 1 and [k for k in range(n) if close[nb[0]][k]] == [i]:
            p = obs[nb[0]]
            dcls = "near-limit" if d2(i, nb[0]) > 2400 * 2400 else "typical"
            if not o["bonded"]:
                pr.append(({"kind": "not-bonded", "distance": dcls}, f"{o['res']} and {p['res']} are {math.sqrt(d2(i, nb[0])) / 1000:.3f} A apart (no third sulfur) but {o['res']} is not SS-bonded"))
            elif o["partner"] != p["res"]:
                pr.append(({"kind": "wrong-partner", "distance": dcls}, f"{o['res']} points at {o['partner']}, not {p['res']}"))
            elif o["HG"]:
                pr.append(({"kind": "HG-kept", "distance": dcls}, f"{o['res']} is bridged but keeps HG"))
            elif not o["ffname"].endswith("CYX"):
                pr.append(({"kind": "not-CYX", "distance": dcls}, f"{o['res']} is bridged but named {o['ffname']}"))
            else:
                # "bridged-cysteine parameters" are those of the bridged cysteine AT ITS CHAIN POSITION: the first
                # residue of a chain is looked up as NCYX, the last as CCYX (first wins for a one-residue chain)
                want = ("N" if o["n"] else "C" if o["c"] else "") + "CYX"
                if o["ffname"].replace("NEUTRAL-", "") != want:
                    pr.append(({"kind": "bridged-parameters-of-wrong-chain-position", "position": "N" if o["n"] else "C"}, f"{o['res']} is bridged and {'first' if o['n'] else 'last'} in its chain but is looked up as {o['ffname']}, not {want}"))
        elif len(nb) == 0 and o["name"] == "CYS":
            if o["bonded"] or not o["HG"] or not o["ffname"].endswith("CYS"):
                pr.append(({"kind": "free-cys-changed", "distance": "-"}, f"{o['res']} has no sulfur within the limit but bonded={o['bonded']} HG={o['HG']} ffname={o['ffname']}"))
    return pr


def run(ctx: Ctx):
    rng = ctx.rng
    n = ctx.scale(70, 2500)
    have_model = ctx.driver.available()
    ctx.extra["rule"] = (
        "two or three peptide fragments (1-4 residues, each with a cysteine from the offline structures) placed rigidly so that SG-SG is typical / just inside / just outside / far from the 2.5 A limit, "
        "a third sulfur, either file order, same or different chains; a case is (distance class, order, chain relation, options); distinct = distinct tuples; single free cysteines count as trivial"
    )
    seen = set()
    for ci in range(n):
        text, opts, feats = gen_case(rng)
        r = G.run_pipeline(text, opts)
        ctx.evaluations += 1
        ctx.count("pipeline-outcome", r.status)
        for f in feats:
            ctx.count("features", f)
        if r.status != "ok":
            continue
        obs = observe(r.biomolecule, text)
        if "free" not in feats:
            ctx.distinct.add(tuple(sorted(feats)) + tuple(o for o in opts if o.startswith("--no")))
        if ci < 2:
            ctx.sample({"pdb_SG_lines": [l for l in text.splitlines() if " SG " in l], "options": opts, "observed": obs})
        if have_model:
            pts = [tuple(int(round(c * 1000)) for c in o["xyz"]) for o in obs]
            ans = ctx.driver.ask([f"ss.scan\t{';'.join(','.join(map(str, p)) for p in pts)}"])[0]
            model = {}
            for part in ans.split(";") if ans else []:
                k, _, v = part.partition(":")
                model[int(k)] = [int(x) for x in v.split(",")] if v else []
            for i, o in enumerate(obs):
                mb = len(model.get(i, [])) == 1
                mp = obs[model[i][0]]["res"] if mb else None
                if (mb, mp) != (o["bonded"], o["partner"]):
                    ctx.disagree("update_ss_bridges", {"pdb": text, "options": opts}, f"{o['res']}: bonded={mb} partner={mp}", f"{o['res']}: bonded={o['bonded']} partner={o['partner']}")
        for sig, msg in check(obs):
            sig = {**sig, "order": "reversed" if "reversed-order" in feats else "file", "chains": "same" if "same-chain" in feats else "different"}
            k = tuple(sorted(sig.items()))
            if k in seen:
                continue
            seen.add(k)
            ctx.violate(sig, msg, {"pdb": text, "options": opts})


def replay(ctx: Ctx, data: dict) -> bool:
    rp = data.get("replay", data)
    r = G.run_pipeline(rp["pdb"], rp["options"])
    print("status:", r.status, r.exc)
    if r.status != "ok":
        return False
    pr = check(observe(r.biomolecule, rp["pdb"]))
    for p in pr:
        print(p)
    return bool(pr)
