"""C13 — disulfide bridges are detected symmetrically and exclusively.

Tie: real Biomolecule.update_ss_bridges (+ add_hydrogens / CYS.set_state) through main_driver vs
the Lean model P2P.Model.SS (nested-loop scan over the SG atoms with the exact squared distance).
Oracle: the property itself on the returned biomolecule."""

from __future__ import annotations

import math
from decimal import Decimal

import gen_struct as G
from core import Ctx

import gen.consts as genconsts

GENERATORS = (genconsts.generate,)
TRUSTED_BASE = [
    "Lean 4.33.0 kernel; axioms ⊆ {propext, Classical.choice, Quot.sound}",
    "hand-written model lean/P2P/Model/SS.lean tied to biomolecule.update_ss_bridges by differential execution; BONDED_SS_LIMIT regenerated from config.py each run",
    "float norm within 1e-6 of the limit is not modelled (the generator keeps SG-SG distances at least 1e-6 away from 2.5 A)",
]
ASSUMPTIONS = ["input coordinates with three decimals (PDB format), so squared distances are exact integers in the model"]


def sg(res):
    return next((a for a in res if a.name == "SG"), None)


def dist(a, b):
    return math.dist((a.x, a.y, a.z), (b.x, b.y, b.z))


_cys_sites = None


def cys_sites():
    """[(segment index, residue index)] of cysteines with SG in the pool"""
    global _cys_sites
    if _cys_sites is None:
        _cys_sites = []
        for si, (_f, run) in enumerate(G.segments()):
            for ri, r in enumerate(run):
                if r[0].resn == "CYS" and sg(r) is not None:
                    _cys_sites.append((si, ri))
    return _cys_sites


def fragment(rng, site, n=None):
    si, ri = site
    _f, run = G.segments()[si]
    n = n or rng.choice([1, 2, 3, 4])
    start = max(0, min(ri - rng.randint(0, n - 1), len(run) - n))
    res = [[a.copy() for a in r if not (a.elem == "H" or a.name[0] == "H")] for r in run[start : start + n]]
    return res, ri - start


def place(rng, frag1, i1, frag2, i2, d):
    """rigidly move frag2 so that SG2 is at distance d from SG1, on the far side of frag1's centroid"""
    G.rigid(frag2, G.rotation(rng), (0, 0, 0))
    s1 = sg(frag1[i1])
    c = G.centroid(frag1)
    u = [s1.x - c[0], s1.y - c[1], s1.z - c[2]]
    n = math.sqrt(sum(x * x for x in u)) or 1.0
    u = [x / n + rng.uniform(-0.2, 0.2) for x in u]
    n = math.sqrt(sum(x * x for x in u))
    u = [x / n for x in u]
    s2 = sg(frag2[i2])
    t = (s1.x + d * u[0] - s2.x, s1.y + d * u[1] - s2.y, s1.z + d * u[2] - s2.z)
    G.rigid(frag2, [[1, 0, 0], [0, 1, 0], [0, 0, 1]], t)


def round3(frags):
    for fr in frags:
        for r in fr:
            for a in r:
                a.x, a.y, a.z = round(a.x, 3), round(a.y, 3), round(a.z, 3)


def exact_d2(a, b):
    return sum((Decimal(repr(round(p, 3))) - Decimal(repr(round(q, 3)))) ** 2 for p, q in ((a.x, b.x), (a.y, b.y), (a.z, b.z)))


def gen_case(rng):
    feats = set()
    sites = cys_sites()
    s1 = rng.choice(sites)
    frag1, i1 = fragment(rng, s1)
    frags = [frag1]
    cls = rng.choice(["bonded", "bonded", "edge-in", "edge-out", "far", "free", "third"])
    if cls != "free":
        s2 = rng.choice(sites)
        frag2, i2 = fragment(rng, s2)
        d = {"bonded": rng.uniform(1.9, 2.2), "edge-in": 2.5 - rng.choice([1e-3, 2e-3, 0.05]), "edge-out": 2.5 + rng.choice([1e-3, 2e-3, 0.05]), "far": rng.uniform(3.0, 8.0), "third": rng.uniform(1.9, 2.3)}[cls]
        place(rng, frag1, i1, frag2, i2, d)
        frags.append(frag2)
        if cls == "third":
            s3 = rng.choice(sites)
            frag3, i3 = fragment(rng, s3, 1)
            place(rng, frag2, i2, frag3, i3, rng.uniform(1.9, 2.4))
            frags.append(frag3)
    feats.add(cls)
    round3(frags)
    order = list(range(len(frags)))
    if rng.random() < 0.5:
        order.reverse()
        feats.add("reversed-order")
    same_chain = rng.random() < 0.4
    feats.add("same-chain" if same_chain else "different-chains")
    start = rng.choice([1, 10, 200])
    # equivalent cysteines of two chains of a homodimer carry the same residue number
    same_number = (not same_chain) and len(frags) >= 2 and rng.random() < 0.35
    cys_index = {0: i1}
    if len(frags) >= 2:
        cys_index[1] = i2
    if same_number:
        feats.add("same-residue-number")
    cys_number = start + max(cys_index.values()) if same_number else None
    chains = []
    for k, fi in enumerate(order):
        fr = frags[fi]
        if same_number and fi in cys_index:
            start = cys_number - cys_index[fi]
        G.set_chain(fr, "A" if same_chain else "ABC"[k], start)
        start += len(fr) + rng.choice([0, 3, 50])
        if not same_chain:
            start = rng.choice([1, 10, 200])
        chains.append(fr)
    text = G.to_pdb(chains, ter=True)
    opts = ["--ff=" + rng.choice(["AMBER", "AMBER", "CHARMM", "PARSE", "SWANSON", "TYL06"]), "--whitespace", "--keep-chain"]
    if rng.random() < 0.5:
        opts.append("--nodebump")
    if rng.random() < 0.5:
        opts.append("--noopt")
    return text, opts, feats


# ------------------------------------------------------------------ bridged pair(s) + free cysteine(s) in ONE structure
# The statement's two halves ("both partners lose the thiol hydrogen ... while residues named CYS with no sulfur within
# the limit keep a thiol hydrogen") quantify over the same structure: this stream builds structures that contain both.


def fragment_at(rng, pos):
    """a fragment whose cysteine is first ("N"), last ("C") or inside ("mid") the fragment"""
    sites = cys_sites()
    for _ in range(500):
        si, ri = rng.choice(sites)
        _f, run = G.segments()[si]
        if pos == "mid":
            n = rng.choice([3, 4, 5])
            idx = rng.randint(1, n - 2)
        elif pos == "N":
            n = rng.choice([1, 2, 3])
            idx = 0
        else:
            n = rng.choice([2, 3])
            idx = n - 1
        start = ri - idx
        if start < 0 or start + n > len(run):
            continue
        res = [[a.copy() for a in r if not (a.elem == "H" or a.name[0] == "H")] for r in run[start : start + n]]
        return res, idx
    raise RuntimeError("no fragment")


def gen_mixed(rng):
    """1-2 bridged pairs and 1-3 free cysteines in one structure; every file order of the fragments, every grouping of
    consecutive fragments into chains; cysteines first / inside / last in their fragment"""
    feats = {"bridged+free"}
    pick_pos = lambda: rng.choice(["mid", "mid", "mid", "N", "C"])  # noqa: E731
    groups = []  # [(kind, [(fragment, cys index, position)])]
    for _ in range(rng.choice([1, 1, 2])):
        p1, p2 = pick_pos(), pick_pos()
        f1, i1 = fragment_at(rng, p1)
        f2, i2 = fragment_at(rng, p2)
        dcls = rng.choice(["bonded", "bonded", "edge-in"])
        d = rng.uniform(1.9, 2.2) if dcls == "bonded" else 2.5 - rng.choice([1e-3, 2e-3, 0.05])
        place(rng, f1, i1, f2, i2, d)
        feats.add("pair-" + dcls)
        groups.append(("pair", [(f1, i1, p1), (f2, i2, p2)]))
    for _ in range(rng.choice([1, 1, 2, 3])):
        p = pick_pos()
        f, i = fragment_at(rng, p)
        G.rigid(f, G.rotation(rng), (0, 0, 0))
        groups.append(("free", [(f, i, p)]))
    # the groups sit on distinct points of a coarse lattice (60 A), so sulfurs of different groups are far apart
    cells = rng.sample([(x, y, z) for x in (-1, 0, 1) for y in (-1, 0, 1) for z in (-1, 0, 1)], len(groups))
    for (kind, members), cell in zip(groups, cells):
        c = G.centroid([r for f, _i, _p in members for r in f])
        t = tuple(60.0 * cell[k] + rng.uniform(-5, 5) - c[k] for k in range(3))
        for f, _i, _p in members:
            G.rigid(f, [[1, 0, 0], [0, 1, 0], [0, 0, 1]], t)
    # a free cysteine may instead sit just outside the limit of a bridged sulfur
    pairs = [m for k, m in groups if k == "pair"]
    for kind, members in groups:
        if kind == "free" and rng.random() < 0.2:
            f, i, _p = members[0]
            keep = [[(a.x, a.y, a.z) for a in r] for r in f]
            bf, bi, _bp = rng.choice(rng.choice(pairs))
            place(rng, bf, bi, f, i, rng.uniform(3.0, 6.0))
            others = [sg(g[j]) for _k, m in groups for g, j, _q in m if g is not f]
            if min(dist(sg(f[i]), o) for o in others) > 2.7:
                feats.add("free-just-outside-the-limit-of-a-bridged-sulfur")
            else:
                for r, ks in zip(f, keep):
                    for a, xyz in zip(r, ks):
                        a.x, a.y, a.z = xyz
    units = [(kind, gi, f, i, p) for gi, (kind, members) in enumerate(groups) for f, i, p in members]
    round3([u[2] for u in units])
    rng.shuffle(units)
    # chains: consecutive fragments of the file, grouped
    mode = rng.choice(["own-chains", "one-chain", "grouped-chains"])
    feats.add(mode)
    newp = {"own-chains": 1.0, "one-chain": 0.0, "grouped-chains": 0.5}[mode]
    letters = iter("ABCDEFGHIJ")
    chain_of = []
    cur = None
    start = 1
    for k, (kind, gi, f, i, p) in enumerate(units):
        if cur is None or rng.random() < newp:
            cur = next(letters)
            start = rng.choice([1, 10, 200])
        G.set_chain(f, cur, start)
        start += len(f) + rng.choice([0, 3, 50])
        chain_of.append(cur)
    bridged_at = [k for k, u in enumerate(units) if u[0] == "pair"]
    bridged_chains = {chain_of[k] for k in bridged_at}
    for k, (kind, gi, f, i, p) in enumerate(units):
        feats.add(("free-" if kind == "free" else "bridged-") + {"mid": "inside-its-fragment", "N": "first-in-its-fragment", "C": "last-in-its-fragment"}[p])
        if kind == "free":
            feats.add("free-before-the-bridge" if k < min(bridged_at) else "free-after-the-bridge" if k > max(bridged_at) else "free-between-bridged-cysteines")
            feats.add("free-in-a-bridged-cysteine's-chain" if chain_of[k] in bridged_chains else "free-in-its-own-chain")
    for kind, members in groups:
        if kind == "pair":
            ka, kb = (k for k, u in enumerate(units) if any(u[2] is f for f, _i, _p in members))
            feats.add("partners-in-one-chain" if chain_of[ka] == chain_of[kb] else "partners-in-two-chains")
    text = G.to_pdb([u[2] for u in units], ter=True)
    posn = input_positions(text)
    for kind, gi, f, i, p in units:
        a = f[i][0]
        feats.add(("free-" if kind == "free" else "bridged-") + {"": "inside-its-chain", "N": "first-in-its-chain", "C": "last-in-its-chain"}[posn[(a.chain, a.resseq)]])
    opts = ["--ff=" + rng.choice(["AMBER", "AMBER", "CHARMM", "PARSE", "SWANSON", "TYL06"]), "--whitespace", "--keep-chain"]
    if rng.random() < 0.5:
        opts.append("--nodebump")
    if rng.random() < 0.5:
        opts.append("--noopt")
    return text, opts, feats


_dat = {}
charge_stats = {}  # (state row | reason skipped) -> number of SG charges compared / skipped


def ff_rows(ff):
    """{(residue, atom): charge} of the force field's DATA file (exact decimals)"""
    if ff not in _dat:
        from core import REPO

        rows = {}
        for l in (REPO / "pdb2pqr" / "dat" / f"{ff}.DAT").read_text(encoding="utf-8").splitlines():
            f = l.split()
            if len(f) >= 4 and not l.startswith("#"):
                rows.setdefault((f[0], f[1]), Decimal(f[2]))
        _dat[ff] = rows
    return _dat[ff]


def input_positions(text):
    """{(chain, number): "N" | "C" | ""} - first / last / inside its chain, from the input. A chain is the residues
    that carry one chain identifier (TER records do not end it); first wins for a one-residue chain."""
    chains = {}
    for l in text.splitlines():
        if l.startswith("ATOM"):
            k = (l[21], int(l[22:26]))
            c = chains.setdefault(l[21], [])
            if not c or c[-1] != k:
                c.append(k)
    # a chain whose first N lies within the amide distance (1.35 A) of its last C is a head-to-tail ring and has no
    # terminal residue at all (C02); rigidly placed fragments can close such a "ring" by accident
    coords = {}
    for l in text.splitlines():
        if l.startswith("ATOM") and l[12:16].strip() in ("N", "C"):
            coords[((l[21], int(l[22:26])), l[12:16].strip())] = (float(l[30:38]), float(l[38:46]), float(l[46:54]))
    out = {}
    for p in chains.values():
        n, c = coords.get((p[0], "N")), coords.get((p[-1], "C"))
        ring = n is not None and c is not None and sum((a - b) ** 2 for a, b in zip(n, c)) < 1.35 * 1.35
        for j, k in enumerate(p):
            out[k] = "" if ring else "N" if j == 0 else "C" if j == len(p) - 1 else ""
    return out


def check_charges(obs, text, opts, pqr, lim2=2500 * 2500):
    """SG charge written to the PQR file against the force field's DATA: the free state (CYS / NCYS / CCYS row) for a
    cysteine with no sulfur within the limit, the bridged state (CYX / NCYX / CCYX row, where the file has one) for
    mutually exclusive partners. Expected state, chain position and row all come from the input and the DATA file."""
    ff = next(o[5:] for o in opts if o.startswith("--ff="))
    rows = ff_rows(ff)
    got = {}
    for t in G.pqr_atoms(pqr or ""):
        if len(t) == 11 and t[2] == "SG":
            got[(t[4], int(t[5]))] = Decimal(t[9])
    posn = input_positions(text)
    keys = []
    for l in text.splitlines():
        if l.startswith("ATOM") and l[12:16].strip() == "SG" and l[17:20] == "CYS":
            keys.append(((l[21], int(l[22:26])), tuple(int(Decimal(l[a:b].strip()) * 1000) for a, b in ((30, 38), (38, 46), (46, 54)))))
    pr = []
    n = len(keys)
    close = [[i != j and sum((keys[i][1][k] - keys[j][1][k]) ** 2 for k in range(3)) < lim2 for j in range(n)] for i in range(n)]
    for i, (key, _xyz) in enumerate(keys):
        nb = [j for j in range(n) if close[i][j]]
        if len(nb) == 0:
            state = "CYS"
        elif len(nb) == 1 and [k for k in range(n) if close[nb[0]][k]] == [i]:
            state = "CYX"
        else:
            continue
        pos = posn.get(key, "")
        want = rows.get((pos + state, "SG"))
        if want is None and state == "CYS":
            want = rows.get(("CYS", "SG"))  # force fields whose termini are separate groups (CHARMM, PARSE)
        if want is None or key not in got:
            charge_stats[f"skipped: no {pos + state} SG row in the DATA file" if want is None else "skipped: SG not in the PQR file"] = charge_stats.get(f"skipped: no {pos + state} SG row in the DATA file" if want is None else "skipped: SG not in the PQR file", 0) + 1
            continue
        charge_stats["compared: " + pos + state] = charge_stats.get("compared: " + pos + state, 0) + 1
        if abs(got[key] - want) > Decimal("0.00006"):
            pr.append(({"kind": "free-cys-SG-charge" if state == "CYS" else "bridged-cys-SG-charge", "distance": "-", "forcefield": ff, "position": pos or "inside"}, f"CYS {key[0]} {key[1]}: SG charge {got[key]} in the PQR file, {ff}.DAT gives {want} for {pos + state}"))
    return pr


def observe(bio, text):
    """CYS-class residues with SG in residue order: list of dicts; coordinates are the INPUT ones
    (debumping may rotate SG afterwards; bridges are detected before)"""
    from pdb2pqr import aa

    inp = {}
    for l in text.splitlines():
        if l.startswith("ATOM") and l[12:16].strip() == "SG":
            inp[(l[21], int(l[22:26]))] = tuple(float(l[a:b]) for a, b in ((30, 38), (38, 46), (46, 54)))
    out = []
    for r in bio.residues:
        if isinstance(r, aa.CYS) and r.has_atom("SG"):
            p = r.ss_bonded_partner
            out.append({"res": str(r), "name": r.name, "xyz": inp[(r.chain_id, r.res_seq)], "bonded": bool(r.ss_bonded), "partner": str(p.residue) if p is not None else None, "HG": r.has_atom("HG"), "ffname": r.ffname, "n": bool(r.is_n_term), "c": bool(r.is_c_term)})
    return out


def input_sg(text):
    """SG coordinates of CYS residues from the input text, exact thousandths"""
    out = []
    for l in text.splitlines():
        if l.startswith("ATOM") and l[12:16].strip() == "SG":
            out.append(tuple(int(Decimal(l[a:b].strip()) * 1000) for a, b in ((30, 38), (38, 46), (46, 54))))
    return out


def check(obs, lim2=2500 * 2500):
    """the property on the observation; returns list of (signature, message)"""
    pr = []
    pts = [tuple(int(round(c * 1000)) for c in o["xyz"]) for o in obs]

    def d2(i, j):
        return sum((pts[i][k] - pts[j][k]) ** 2 for k in range(3))

    n = len(obs)
    close = [[i != j and d2(i, j) < lim2 for j in range(n)] for i in range(n)]
    for i in range(n):
        nb = [j for j in range(n) if close[i][j]]
        o = obs[i]
        if len(nb) == 1 and [k for k in range(n) if close[nb[0]][k]] == [i]:
            p = obs[nb[0]]
            dcls = "near-limit" if d2(i, nb[0]) > 2400 * 2400 else "typical"
            if not o["bonded"]:
                pr.append(({"kind": "not-bonded", "distance": dcls}, f"{o['res']} and {p['res']} are {math.sqrt(d2(i, nb[0])) / 1000:.3f} A apart (no third sulfur) but {o['res']} is not SS-bonded"))
            elif o["partner"] != p["res"]:
                pr.append(({"kind": "wrong-partner", "distance": dcls}, f"{o['res']} points at {o['partner']}, not {p['res']}"))
            elif o["HG"]:
                pr.append(({"kind": "HG-kept", "distance": dcls}, f"{o['res']} is bridged but keeps HG"))
            elif not o["ffname"].endswith("CYX"):
                pr.append(({"kind": "not-CYX", "distance": dcls}, f"{o['res']} is bridged but named {o['ffname']}"))
            else:
                # "bridged-cysteine parameters" are those of the bridged cysteine AT ITS CHAIN POSITION: the first
                # residue of a chain is looked up as NCYX, the last as CCYX (first wins for a one-residue chain)
                want = ("N" if o["n"] else "C" if o["c"] else "") + "CYX"
                if o["ffname"].replace("NEUTRAL-", "") != want:
                    pr.append(({"kind": "bridged-parameters-of-wrong-chain-position", "position": "N" if o["n"] else "C"}, f"{o['res']} is bridged and {'first' if o['n'] else 'last'} in its chain but is looked up as {o['ffname']}, not {want}"))
        elif len(nb) == 0 and o["name"] == "CYS":
            if o["bonded"] or not o["HG"] or not o["ffname"].endswith("CYS"):
                pr.append(({"kind": "free-cys-changed", "distance": "-"}, f"{o['res']} has no sulfur within the limit but bonded={o['bonded']} HG={o['HG']} ffname={o['ffname']}"))
    return pr


def run(ctx: Ctx):
    rng = ctx.rng
    n = ctx.scale(70, 2500)
    n_mixed = ctx.scale(40, 800)
    have_model = ctx.driver.available()
    ctx.extra["rule"] = (
        "two or three peptide fragments (1-4 residues, each with a cysteine from the offline structures) placed rigidly so that SG-SG is typical / just inside / just outside / far from the 2.5 A limit, "
        "a third sulfur, either file order, same or different chains; a case is (distance class, order, chain relation, options); distinct = distinct tuples; single free cysteines count as trivial. "
        "Second stream (bridged+free): one or two bridged pairs AND one to three free cysteines in ONE structure, fragments in every file order, consecutive fragments grouped into chains at random "
        "(every fragment its own chain / one chain / groups), cysteines first, inside or last in their fragment and in their chain, a free cysteine far away or just outside the limit of a bridged sulfur; "
        "both streams: SG charge of the PQR file against the force field's DATA rows of the expected state"
    )
    seen = set()
    for ci in range(n + n_mixed):
        mixed = ci >= n
        text, opts, feats = gen_mixed(rng) if mixed else gen_case(rng)
        r = G.run_pipeline(text, opts)
        ctx.evaluations += 1
        ctx.count("pipeline-outcome", r.status)
        for f in feats:
            ctx.count("features-bridged+free" if mixed else "features", f)
        if r.status != "ok":
            continue
        obs = observe(r.biomolecule, text)
        if "free" not in feats:
            ctx.distinct.add(tuple(sorted(feats)) + tuple(o for o in opts if o.startswith("--no")))
        if ci < 2 or ci == n:
            ctx.sample({"pdb_SG_lines": [l for l in text.splitlines() if " SG " in l], "options": opts, "observed": obs})
        if have_model:
            pts = [tuple(int(round(c * 1000)) for c in o["xyz"]) for o in obs]
            ans = ctx.driver.ask([f"ss.scan\t{';'.join(','.join(map(str, p)) for p in pts)}"])[0]
            model = {}
            for part in ans.split(";") if ans else []:
                k, _, v = part.partition(":")
                model[int(k)] = [int(x) for x in v.split(",")] if v else []
            for i, o in enumerate(obs):
                mb = len(model.get(i, [])) == 1
                mp = obs[model[i][0]]["res"] if mb else None
                if (mb, mp) != (o["bonded"], o["partner"]):
                    ctx.disagree("update_ss_bridges", {"pdb": text, "options": opts}, f"{o['res']}: bonded={mb} partner={mp}", f"{o['res']}: bonded={o['bonded']} partner={o['partner']}")
        if mixed:
            # what the structure contains, re-derived from the input text
            pts = input_sg(text)
            near = [sum(1 for q in pts if q is not p and sum((a - b) ** 2 for a, b in zip(p, q)) < 2500 * 2500) for p in pts]
            ctx.count("bridged+free-structures", f"{sum(1 for c in near if c == 1) // 2}-bridges+{sum(1 for c in near if c == 0)}-free")
        problems = check(obs) + check_charges(obs, text, opts, r.pqr)
        for k2, v2 in charge_stats.items():
            ctx.count("SG-charge-oracle", k2, v2)
        charge_stats.clear()
        for sig, msg in problems:
            if mixed:
                sig = {**sig, "stream": "bridged+free", "chains": next(m for m in ("own-chains", "one-chain", "grouped-chains") if m in feats)}
            else:
                sig = {**sig, "order": "reversed" if "reversed-order" in feats else "file", "chains": "same" if "same-chain" in feats else "different"}
            k = tuple(sorted(sig.items()))
            if k in seen:
                continue
            seen.add(k)
            ctx.violate(sig, msg, {"pdb": text, "options": opts})


def replay(ctx: Ctx, data: dict) -> bool:
    rp = data.get("replay", data)
    r = G.run_pipeline(rp["pdb"], rp["options"])
    print("status:", r.status, r.exc)
    if r.status != "ok":
        return False
    obs = observe(r.biomolecule, rp["pdb"])
    pr = check(obs)
    if any(o.startswith("--ff=") for o in rp["options"]):
        pr += check_charges(obs, rp["pdb"], rp["options"], r.pqr)
    for p in pr:
        print(p)
    return bool(pr)
