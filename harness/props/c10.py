"""C10 — mmCIF and PDB encodings of one structure give the same result.

Tie: real cif.read_cif (atom_site column assembly, model framing) + Biomolecule vs the Lean
model P2P.Model.Cif fed with the rows mmcif-pdbx delivers.
Oracle: one abstract structure written as PDB and as mmCIF by this harness's own writers,
both read by the real io.get_molecule; records, residues and (on a sample) end-to-end PQRs compared."""

from __future__ import annotations

import logging
import os
import random
import re
import tempfile

from core import REPO, Ctx, hexs, unhexs
from props import c07

GENERATORS = ()
TRUSTED_BASE = [
    "Lean 4.33.0 kernel; axioms ⊆ {propext, Classical.choice, Quot.sound}",
    "hand-written model lean/P2P/Model/Cif.lean (+ PdbRead) tied to cif.py/pdb.py/biomolecule.py by differential execution",
    "mmcif-pdbx 2.1.0 (the installed version): the model's input is the row list it delivers; other versions cannot be exercised offline",
    "the harness's own PDB and mmCIF writers define what 'the same structure in both formats' means",
]
ASSUMPTIONS = ["structures expressible in both formats (fields within PDB column widths)", "header categories present in the mmCIF (template of tests/data/1FAS.cif)"]

_template = None
DROP = {"atom_site", "atom_site_anisotrop", "struct_conn", "struct_conn_type", "struct_mon_prot_cis", "struct_sheet", "struct_sheet_order", "struct_sheet_range", "pdbx_struct_sheet_hbond", "pdbx_poly_seq_scheme", "pdbx_nonpoly_scheme", "pdbx_validate_close_contact", "pdbx_validate_rmsd_bond", "pdbx_validate_rmsd_angle", "pdbx_validate_torsion"}
ITEMS = ["group_PDB", "id", "type_symbol", "label_atom_id", "label_alt_id", "label_comp_id", "label_asym_id", "label_entity_id", "label_seq_id", "pdbx_PDB_ins_code", "Cartn_x", "Cartn_y", "Cartn_z", "occupancy", "B_iso_or_equiv", "pdbx_formal_charge", "auth_seq_id", "auth_comp_id", "auth_asym_id", "auth_atom_id", "pdbx_PDB_model_num"]


def template():
    global _template
    if _template is None:
        txt = (REPO / "tests" / "data" / "1FAS.cif").read_text()
        blocks = re.split(r"(?m)^#\s*$\n?", txt)

        def cat(b):
            m = re.search(r"(?m)^_([A-Za-z0-9_]+)\.", b)
            return m.group(1) if m else None

        keep = [b for b in blocks if cat(b) not in DROP]
        _template = "#\n".join(keep[:-1])  # last block is the trailing empty one
    return _template


def q(v: str) -> str:
    """CIF value quoting"""
    if v == "":
        return "."
    if any(c in v for c in " '\"") or v[0] in "_#$[];":
        return '"' + v + '"' if '"' not in v else "'" + v + "'"
    return v


def row_order_mode(atoms) -> str:
    """the order of the rows of the atom_site loop has no meaning in mmCIF: besides model by model (as PDB files list
    them) an ensemble is written with the polymer atoms of all models first and the hetero atoms after them, or with
    the models interleaved residue by residue. A function of the atoms, so that every writer call of a case agrees."""
    if len({a["model"] for a in atoms}) < 2:
        return "single-model"
    return ("model-by-model", "polymer-first", "models-interleaved")[(len(atoms) + int(atoms[0]["serial"])) % 3]


def cif_row_order(atoms):
    """the atoms in the order their rows are written; the relative order inside each model is kept"""
    mode = row_order_mode(atoms)
    if mode == "polymer-first":
        return [a for a in atoms if not a["het"]] + [a for a in atoms if a["het"]]
    if mode == "models-interleaved":
        per = {}
        for a in atoms:
            per.setdefault(a["model"], []).append(a)
        keyed = []
        for mi, (m, lst) in enumerate(per.items()):
            ri, prev = -1, None
            for k, a in enumerate(lst):
                rk = (a["chain"], a["resseq"], a["ins"], a["resn"])
                if rk != prev:
                    ri, prev = ri + 1, rk
                keyed.append((ri, mi, k, a))
        keyed.sort(key=lambda t: t[:3])
        return [t[3] for t in keyed]
    return list(atoms)


def write_cif(atoms, label_differs=False) -> str:
    rows = []
    n_all, serial0 = len(atoms), atoms[0]["serial"]
    for a in cif_row_order(atoms):
        label_asym = a["chain"]
        if label_differs and a["het"]:
            # label_asym_id of a hetero group is whatever the depositor's software assigned: it varies from
            # entry to entry and may coincide with the author chain of a polymer in another entry
            k = (n_all + serial0 + "ABCDEFGH".find(a["chain"])) % 5
            label_asym = ["B", "C", "D", "E", "A"][k]
            if label_asym == a["chain"]:
                label_asym = "Z"
        ch = a["charge"]
        fc = "?" if not ch else (ch[0] if ch[1] == "+" else "-" + ch[0])
        rows.append(
            " ".join(
                q(x)
                for x in [
                    "HETATM" if a["het"] else "ATOM",
                    str(a["serial"]),
                    a["element"] or "X",
                    a["name"],
                    a["alt"] or ".",
                    a["resn"],
                    label_asym,
                    "1",
                    "." if a["het"] else str(a["resseq"]),
                    a["ins"] or "?",
                    a["xs"],
                    a["ys"],
                    a["zs"],
                    a["occ"],
                    a["b"],
                    fc,
                    str(a["resseq"]),
                    a["resn"],
                    a["chain"],
                    a["name"],
                    str(a["model"]),
                ]
            )
        )
    loop = "loop_\n" + "".join(f"_atom_site.{i} \n" for i in ITEMS) + "\n".join(rows) + "\n"
    return template() + "#\n" + loop + "#\n"


def write_pdb(atoms) -> str:
    out = []
    models = []
    for a in atoms:
        if a["model"] not in models:
            models.append(a["model"])  # file order, as listed
    for m in models:
        if len(models) > 1:
            out.append(f"MODEL     {m:4d}")
        for a in atoms:
            if a["model"] != m:
                continue
            name = a["name"] if len(a["name"]) == 4 else " " + a["name"].ljust(3)
            out.append(
                f"{'HETATM' if a['het'] else 'ATOM  '}{a['serial']:5d} {name}{a['alt'] or ' '}{a['resn']:>3} {a['chain']}{a['resseq']:4d}{a['ins'] or ' '}   "
                f"{a['xs']:>8}{a['ys']:>8}{a['zs']:>8}{a['occ']:>6}{a['b']:>6}          {a['element']:>2}{a['charge'] or '  '}"
            )
        if len(models) > 1:
            out.append("ENDMDL")
    out.append("END")
    return "\n".join(out) + "\n"


def quiet():
    logging.getLogger("pdb2pqr").setLevel(logging.CRITICAL)
    logging.getLogger().setLevel(logging.CRITICAL)
    logging.disable(logging.CRITICAL)


def read_real(text: str, suffix: str):
    """io.get_molecule + Biomolecule on a temp file: (status, records, residues)"""
    from pdb2pqr import io as pio
    from pdb2pqr import main as pmain

    quiet()
    fd, path = tempfile.mkstemp(suffix=suffix, prefix="c10_")
    with os.fdopen(fd, "w") as f:
        f.write(text)
    try:
        try:
            pdblist, _is_cif = pio.get_molecule(path)
        except Exception as e:  # noqa: BLE001
            return f"read:{type(e).__name__}", None, None
        recs = []
        for r in pdblist:
            n = type(r).__name__
            if n in ("ATOM", "HETATM"):
                recs.append((n, r.serial, r.name, r.alt_loc, r.res_name, r.chain_id, r.res_seq, r.ins_code, r.x, r.y, r.z, str(r)))
            elif n in ("MODEL", "ENDMDL"):
                recs.append((n,))
        try:
            bio, _d, _l = pmain.setup_molecule(pdblist, c07.definition(), None)
        except Exception as e:  # noqa: BLE001
            return f"biomolecule:{type(e).__name__}", recs, None
        res = [((r.chain_id, r.res_seq, r.ins_code), [a.serial for a in r.atoms]) for r in bio.residues]
        return "ok", recs, res
    finally:
        os.unlink(path)


def pdbx_rows(cif_text: str):
    """rows as mmcif-pdbx delivers them"""
    import io

    import pdbx

    data = pdbx.load(io.StringIO(cif_text))
    a = data[0].get_object("atom_site")
    names = a.attribute_list
    rows = []
    for r in a.row_list:
        d = dict(zip(names, r))
        rows.append(d)
    return rows


def enc_row(d) -> str:
    def s(k):
        return hexs(d[k]) if d.get(k) is not None else "~"

    def o(k):
        return "~" if d.get(k) is None else hexs(d[k])

    return ",".join(
        [s("group_PDB"), s("id"), s("label_atom_id"), o("label_alt_id"), s("label_comp_id"), s("label_asym_id"), o("auth_asym_id"), s("auth_seq_id"), o("pdbx_PDB_ins_code"), s("Cartn_x"), s("Cartn_y"), s("Cartn_z"), s("occupancy"), s("B_iso_or_equiv"), s("type_symbol"), o("pdbx_formal_charge"), s("pdbx_PDB_model_num")]
    )


# ---------------------------------------------------------------- generator


def parse_pool_line(l: str):
    return {
        "het": l.startswith("HETATM"),
        "name": l[12:16].strip(),
        "resn": l[17:20].strip(),
        "chain": l[21] if l[21] != " " else "A",
        "resseq": int(l[22:26]),
        "xs": l[30:38].strip(),
        "ys": l[38:46].strip(),
        "zs": l[46:54].strip(),
        "occ": (l[54:60].strip() or "1.00"),
        "b": (l[60:66].strip() or "0.00"),
        "element": (l[76:78].strip() or l[12:14].strip()[:1]),
        "alt": "",
        "ins": "",
        "charge": "",
        "model": 1,
    }


def gen_structure(rng: random.Random):
    feats = set()
    name = rng.choice([n for n in c07.pool() if n not in ("1A1P.pdb",)])
    _h, residues = c07.pool()[name]
    nres = rng.choice([2, 3, 4, 6])
    start = rng.randrange(0, max(1, len(residues) - nres))
    atoms = []
    serial = rng.choice([1, 1, 9990, 99000])
    for ri, res in enumerate(residues[start : start + nres]):
        for l in res:
            if l[16] not in " A":
                continue  # keep one conformer of the source
            a = parse_pool_line(l)
            if len(a["resn"]) != 3:
                continue
            atoms.append(a)
    if not atoms:
        return gen_structure(rng)
    # features
    if rng.random() < 0.25:
        i = rng.randrange(len(atoms))
        b = dict(atoms[i])
        atoms[i]["alt"], b["alt"] = "A", "B"
        b["xs"] = f"{float(b['xs']) + 0.3:.3f}"
        atoms.insert(i + 1, b)
        feats.add("altloc")
    if rng.random() < 0.25:
        keys = sorted({(a["chain"], a["resseq"]) for a in atoms})
        k = rng.choice(keys)
        for a in atoms:
            if (a["chain"], a["resseq"]) == k:
                a["ins"] = "A"
        if len(keys) > 1 and rng.random() < 0.5:
            # the next residue gets the same number with another code
            k2 = keys[(keys.index(k) + 1) % len(keys)]
            if k2 != k and k2[0] == k[0]:
                for a in atoms:
                    if (a["chain"], a["resseq"]) == k2:
                        a["resseq"], a["ins"] = k[1], "B"
        feats.add("icode")
    if any(len(a["name"]) == 4 for a in atoms):
        feats.add("name4")
    elif rng.random() < 0.3:
        for a in atoms:
            if a["name"] in ("CB", "CG") and not a["het"]:
                a2 = dict(a)
                a2["name"], a2["element"] = "HB11" if a["name"] == "CB" else "HG21", "H"
                a2["xs"] = f"{float(a['xs']) + 0.9:.3f}"
                atoms.insert(atoms.index(a) + 1, a2)
                feats.add("name4")
                break
    if rng.random() < 0.2:
        a = rng.choice(atoms)
        a["charge"] = rng.choice(["1+", "1-", "2+"])
        feats.add("formal-charge")
    if rng.random() < 0.2:
        a = rng.choice(atoms)
        a["xs"] = f"{-100 - rng.uniform(0, 800):.3f}"
        feats.add("coord-8-chars")
    if rng.random() < 0.3:
        for _ in range(rng.randint(1, 2)):
            atoms.append({"het": True, "name": "O", "resn": "HOH", "chain": atoms[0]["chain"], "resseq": rng.randint(300, 900), "xs": f"{rng.uniform(-40, 40):.3f}", "ys": f"{rng.uniform(-40, 40):.3f}", "zs": f"{rng.uniform(-40, 40):.3f}", "occ": "1.00", "b": "30.00", "element": "O", "alt": "", "ins": "", "charge": "", "model": 1})
        feats.add("water")
    for a in atoms:
        a["serial"] = serial
        serial += 1
    if serial > 10000:
        feats.add("serial-5-digits")
    nm = rng.choice([1, 1, 1, 2, 3])
    if nm > 1:
        feats.add(f"models={nm}")
        allm = []
        # model numbers need not start at 1 nor come in lexicographic order (a sub-ensemble 9, 10; 2 before 1)
        numbering = rng.choice(["1..n", "1..n", "9,10,..", "descending", "sparse"])
        nums = {"1..n": list(range(1, nm + 1)), "9,10,..": list(range(9, 9 + nm)), "descending": list(range(nm, 0, -1)), "sparse": [3, 12, 100][:nm]}[numbering]
        if numbering != "1..n":
            feats.add("model-numbers:" + numbering)
        for k, m in enumerate(nums):
            for a in atoms:
                b = dict(a)
                b["model"] = m
                if k > 0:
                    b["xs"] = f"{float(a['xs']) + 0.01 * (k + 1):.3f}"
                allm.append(b)
        atoms = allm
    label_differs = rng.random() < 0.25 and any(a["het"] for a in atoms)
    if label_differs:
        feats.add("label!=auth chain")
    return atoms, label_differs, feats


def rec_key(r):
    return r[:11] if len(r) > 1 else r


FIELDS = ["record", "serial", "name", "alt_loc", "res_name", "chain_id", "res_seq", "ins_code", "x", "y", "z"]


def compare(atoms, label_differs):
    """the property on the real code: None or (field, message)"""
    ps, precs, pres = read_real(write_pdb(atoms), ".pdb")
    cs, crecs, cres = read_real(write_cif(atoms, label_differs), ".cif")
    if ps != "ok":
        return None  # the PDB encoding itself is not accepted: not a C10 matter
    if cs != "ok":
        return ("crash", f"mmCIF encoding fails with {cs} where the PDB encoding is read")
    pa = [r for r in precs if len(r) > 1]
    ca = [r for r in crecs if len(r) > 1]
    if len(pa) != len(ca):
        return ("count", f"{len(ca)} coordinate records from mmCIF, {len(pa)} from PDB")
    for rp, rc in zip(pa, ca):
        for i, f in enumerate(FIELDS):
            if rp[i] != rc[i]:
                return (f, f"record {rp[1]}: {f} is {rc[i]!r} from mmCIF, {rp[i]!r} from PDB   [{rc[11]!r}]")
    if pres != cres:
        return ("residues", f"residue grouping differs: {str(cres)[:200]} vs {str(pres)[:200]}")
    return None


def end_to_end(atoms, label_differs, ff):
    """PQR atom lines from both encodings through the real main_driver"""
    from pdb2pqr.main import build_main_parser, main_driver

    quiet()
    outs = []
    for text, suffix in ((write_pdb(atoms), ".pdb"), (write_cif(atoms, label_differs), ".cif")):
        d = tempfile.mkdtemp(prefix="c10e_")
        inp, out = os.path.join(d, "in" + suffix), os.path.join(d, "out.pqr")
        open(inp, "w").write(text)
        try:
            args = build_main_parser().parse_args([f"--ff={ff}", "--whitespace", "--keep-chain", "--log-level=CRITICAL", inp, out])
            try:
                main_driver(args)
                lines = [l.split() for l in open(out) if l.startswith(("ATOM", "HETATM"))]
                outs.append(("ok", lines))
            except Exception as e:  # noqa: BLE001
                outs.append((type(e).__name__, None))
        finally:
            for fn in os.listdir(d):
                os.unlink(os.path.join(d, fn))
            os.rmdir(d)
    return outs


def minimise(atoms, label_differs, field):
    def fails(at, ld):
        pr = compare(at, ld)
        return pr is not None and pr[0] == field

    if label_differs and fails(atoms, False):
        label_differs = False
    cur = list(atoms)
    i, n = 0, 0
    chunk = max(1, len(cur) // 2)
    while chunk >= 1 and n < 200:
        i = 0
        while i < len(cur) and n < 200:
            t = cur[:i] + cur[i + chunk :]
            n += 1
            if t and fails(t, label_differs):
                cur = t
            else:
                i += chunk
        chunk //= 2
    # normalise features that are not needed
    for j in range(len(cur)):
        for k, v in (("alt", ""), ("ins", ""), ("charge", ""), ("xs", "1.000"), ("model", 1)):
            if cur[j][k] != v:
                t = cur[:j] + [{**cur[j], k: v}] + cur[j + 1 :]
                if fails(t, label_differs):
                    cur = t
    if all(a["serial"] >= 10000 for a in cur):
        t = [{**a, "serial": i + 1} for i, a in enumerate(cur)]
        if fails(t, label_differs):
            cur = t
    return cur, label_differs


def features_of(atoms, label_differs):
    f = set()
    if any(a["alt"] for a in atoms):
        f.add("altloc")
    if any(a["ins"] for a in atoms):
        f.add("icode")
    if any(len(a["name"]) == 4 for a in atoms):
        f.add("name4")
    if any(a["charge"] for a in atoms):
        f.add("formal-charge")
    if any(len(a[k]) >= 8 for a in atoms for k in ("xs", "ys", "zs")):
        f.add("coord-8-chars")
    if len({a["model"] for a in atoms}) > 1:
        f.add("multi-model")
        f.add("cif-rows:" + row_order_mode(atoms))
    if label_differs:
        f.add("label!=auth chain")
    if any(a["serial"] >= 10000 for a in atoms):
        f.add("serial-5-digits")
    return sorted(f)


# ---------------------------------------------------------------- written PQR files of the twin inputs
# The statement is about the RESULT of a run: the PQR file main_driver writes.  The streams above compare the
# readers and the biomolecule, and the end-to-end sample runs with one fixed output layout (--whitespace
# --keep-chain) on structures without hetero groups.  This stream quantifies over the output-affecting options
# (column layout, chain column, water removal) on twins that always contain waters and often a hetero group.

WF_FLAGS = ("--whitespace", "--keep-chain", "--drop-water")
WATER_NAMES = ("HOH", "WAT")
PQR_FIELDS = ["record", "serial", "name", "res_name", "chain_id", "res_seq", "ins_code", "x", "y", "z", "charge", "radius"]
_het_groups = None


def het_groups():
    """hetero groups (not water) of the offline structures, as lists of atom dicts"""
    global _het_groups
    if _het_groups is None:
        _het_groups = []
        for name in sorted(c07.pool()):
            for res in c07.pool()[name][1]:
                if res[0].startswith("HETATM") and res[0][17:20].strip() not in WATER_NAMES and len(res[0][17:20].strip()) == 3:
                    at = [parse_pool_line(l) for l in res if l[16] in " A"]
                    if at and len(at) <= 60:
                        _het_groups.append(at)
    return _het_groups


def gen_hetero_structure(rng: random.Random):
    """a gen_structure() twin that is guaranteed to contain crystallographic waters (own residue numbers) and,
    half of the time, a hetero group of the offline structures; every model gets the same additions"""
    for _ in range(50):
        atoms, label_differs, feats = gen_structure(rng)
        if any(not a["het"] for a in atoms):
            break
    feats = set(feats)
    chain = next(a["chain"] for a in atoms if not a["het"]) if any(not a["het"] for a in atoms) else atoms[0]["chain"]
    used = {a["resseq"] for a in atoms}
    free = [n for n in range(1, 9000) if n not in used and n - 1 not in used and n + 1 not in used]
    base = rng.choice(free[: max(1, len(free) - 10)])
    nums = [n for n in free if n >= base][:8]
    ref = next((a for a in atoms if not a["het"]), atoms[0])
    rx, ry, rz = float(ref["xs"]) if len(ref["xs"]) < 8 else 0.0, float(ref["ys"]), float(ref["zs"])
    extra = []
    if rng.random() < 0.5 and het_groups():
        kind = rng.choice(sorted({g[0]["resn"] for g in het_groups()}))
        g = rng.choice([g for g in het_groups() if g[0]["resn"] == kind])
        cx, cy, cz = float(g[0]["xs"]), float(g[0]["ys"]), float(g[0]["zs"])
        for a in g:
            # moved next to the window (15 A away), shape kept
            extra.append({**a, "chain": chain, "resseq": nums[0], "xs": f"{float(a['xs']) - cx + rx + 15:.3f}", "ys": f"{float(a['ys']) - cy + ry:.3f}", "zs": f"{float(a['zs']) - cz + rz:.3f}"})
        feats.add("hetero-group:" + g[0]["resn"])
    nw = rng.randint(1, 3)
    for k in range(nw):
        extra.append({"het": True, "name": "O", "resn": "HOH", "chain": chain, "resseq": nums[1 + k], "xs": f"{rx + rng.uniform(-12, 12):.3f}", "ys": f"{ry + rng.uniform(6, 12) * rng.choice([-1, 1]):.3f}", "zs": f"{rz + rng.uniform(-12, 12):.3f}", "occ": "1.00", "b": "30.00", "element": "O", "alt": "", "ins": "", "charge": "", "model": 1})
    feats.add("water")
    models = []
    for a in atoms:
        if a["model"] not in models:
            models.append(a["model"])
    first = atoms[0]["serial"]
    out = []
    for m in models:
        serial = first
        for a in [x for x in atoms if x["model"] == m] + [{**e, "model": m} for e in extra]:
            out.append({**a, "serial": serial})
            serial += 1
    if label_differs is False and rng.random() < 0.25:
        label_differs = True
        feats.add("label!=auth chain")
    return out, label_differs, feats


def unspace(line: str) -> str:
    """inverse of the --whitespace layout (one blank inserted after columns 6, 16, 38 and 46 of the record)"""
    return line[0:6] + line[7:17] + line[18:40] + line[41:49] + line[50:]


def pqr_fields(line: str, whitespace: bool):
    """the fields of one written ATOM/HETATM record, by the fixed columns of the PQR layout"""
    l = (unspace(line) if whitespace else line).rstrip("\r\n")
    return (l[0:6].strip(), l[6:11].strip(), l[12:16].strip(), l[16:21].strip(), l[21:22].strip(), l[22:26].strip(), l[26:27].strip(), l[30:38].strip(), l[38:46].strip(), l[46:54].strip(), l[54:62].strip(), l[62:69].strip())


def written_pqr(text: str, suffix: str, opts):
    """the file main_driver writes for one encoding: (status, [fields of the atom records], [record names of the other lines])"""
    from pdb2pqr.main import build_main_parser, main_driver

    quiet()
    d = tempfile.mkdtemp(prefix="c10w_")
    inp, out = os.path.join(d, "in" + suffix), os.path.join(d, "out.pqr")
    with open(inp, "w") as f:
        f.write(text)
    try:
        args = build_main_parser().parse_args([*opts, "--log-level=CRITICAL", inp, out])
        try:
            main_driver(args)
        except Exception as e:  # noqa: BLE001
            return type(e).__name__, None, None
        if not os.path.exists(out):
            return "no-output-file", None, None
        recs, other = [], []
        with open(out) as f:
            for l in f:
                if l.startswith(("ATOM", "HETATM")):
                    recs.append(pqr_fields(l, "--whitespace" in opts))
                else:
                    other.append(l[:6].strip())
        return "ok", recs, other
    finally:
        for fn in os.listdir(d):
            os.unlink(os.path.join(d, fn))
        os.rmdir(d)


def requested_waters(atoms):
    """the water oxygens the request contains (first model, first conformer, residue key not shared with anything else):
    [(res_seq, ins_code, x, y, z)] with the coordinates as a PQR record prints them"""
    m0 = atoms[0]["model"]
    first = [a for a in atoms if a["model"] == m0]
    out = []
    for a in first:
        if a["resn"] in WATER_NAMES and a["name"] == "O" and a["alt"] in ("", "A"):
            key = (a["chain"], a["resseq"], a["ins"])
            if all(b["resn"] in WATER_NAMES for b in first if (b["chain"], b["resseq"], b["ins"]) == key) and sum(1 for b in first if (b["chain"], b["resseq"], b["ins"]) == key and b["name"] == "O") == 1:
                out.append((str(a["resseq"]), a["ins"], f"{float(a['xs']):8.3f}".strip(), f"{float(a['ys']):8.3f}".strip(), f"{float(a['zs']):8.3f}".strip()))
    return out


def compare_written(atoms, label_differs, opts):
    """the property on the written files: (None | (kind, message), status pair)"""
    sp, rp, _op = written_pqr(write_pdb(atoms), ".pdb", opts)
    sc, rc, _oc = written_pqr(write_cif(atoms, label_differs), ".cif", opts)
    st = f"{sp}/{sc}"
    if sp != "ok":
        return None, st  # the PDB encoding itself is not processed: not a C10 matter
    if sc != "ok":
        return ("crash", f"main_driver {' '.join(opts)} fails on the mmCIF encoding ({sc}) and succeeds on the PDB encoding"), st
    # the request's own waters: present in both files unless --drop-water, absent from both with it
    for enc, recs in (("PDB", rp), ("mmCIF", rc)):
        wat = [r for r in recs if r[3] in WATER_NAMES]
        if "--drop-water" in opts:
            if wat:
                return ("water-kept", f"{' '.join(opts)}: the PQR written for the {enc} encoding still has {len(wat)} water records"), st
        else:
            have = {(r[5], r[6], r[7], r[8], r[9]) for r in wat if r[2] == "O"}
            miss = [w for w in requested_waters(atoms) if w not in have]
            if miss:
                return ("water-lost", f"{' '.join(opts)}: the PQR written for the {enc} encoding lacks {len(miss)} of the {len(requested_waters(atoms))} waters of the input (e.g. residue {miss[0][0]}{miss[0][1]} at {miss[0][2:]}); {len(recs)} atom records written"), st
    if len(rp) != len(rc):
        nh = (sum(1 for r in rp if r[0] == "HETATM"), sum(1 for r in rc if r[0] == "HETATM"))
        return ("count", f"{' '.join(opts)}: {len(rc)} atom records in the PQR written from mmCIF ({nh[1]} HETATM), {len(rp)} in the one written from PDB ({nh[0]} HETATM)"), st
    for a, b in zip(rp, rc):
        for i, f in enumerate(PQR_FIELDS):
            if a[i] != b[i]:
                return ("pqr-" + f, f"{' '.join(opts)}: written record {a[1]} ({a[2]} {a[3]} {a[5]}): {f} is {b[i]!r} from mmCIF, {a[i]!r} from PDB"), st
    return None, st


def minimise_written(atoms, label_differs, opts, kind, budget=10):
    """drop whole residues / models while the same kind of difference remains (each trial is two runs: small budget)"""
    def fails(at, ld):
        pr, _ = compare_written(at, ld, opts)
        return pr is not None and pr[0] == kind

    cur, n = list(atoms), 0
    m0 = cur[0]["model"]
    if any(a["model"] != m0 for a in cur):
        t = [a for a in cur if a["model"] == m0]
        n += 1
        if fails(t, label_differs):
            cur = t
    if label_differs:
        n += 1
        if fails(cur, False):
            label_differs = False
    keys = []
    for a in cur:
        k = (a["chain"], a["resseq"], a["ins"])
        if k not in keys:
            keys.append(k)
    for k in reversed(keys):
        if n >= budget:
            break
        t = [a for a in cur if (a["chain"], a["resseq"], a["ins"]) != k]
        if not t:
            continue
        n += 1
        if fails(t, label_differs):
            cur = t
    return cur, label_differs


def written_stream(ctx: Ctx):
    n = ctx.scale(24, 400)
    rng = random.Random(f"C10:written:{ctx.seed}")
    ctx.extra["rule"] = ctx.extra.get("rule", "") + (
        "; written-file stream: such windows with 1-3 added waters and (half of them) a hetero group of the offline structures, both encodings through main_driver "
        "with every combination of --whitespace / --keep-chain / --drop-water and a random force field, the atom records of the two written PQR files compared field by field "
        "and against the waters the input contains"
    )
    seen = set()
    for ci in range(n):
        atoms, label_differs, feats = gen_hetero_structure(rng)
        ctx.evaluations += 1
        # every combination of the three output-affecting flags comes round every 8 cases
        flags = [f for k, f in enumerate(WF_FLAGS) if (ci >> k) & 1]
        ff = rng.choice(["AMBER", "PARSE", "CHARMM", "SWANSON", "TYL06", "PEOEPB"])
        opts = [f"--ff={ff}", *flags]
        if rng.random() < 0.3:
            opts.append(rng.choice(["--nodebump", "--noopt"]))
        ctx.distinct.add(("written", tuple(flags), tuple(sorted(f.split(":")[0] for f in feats))))
        ctx.count("written-file options", " ".join(flags) or "(default layout)")
        for f in feats:
            if f.startswith("hetero-group") or f == "water":
                ctx.count("written-file features", f)
        pr, st = compare_written(atoms, label_differs, opts)
        ctx.count("written-file runs (pdb/cif)", st)
        ctx.count("written-file oracle", "holds" if pr is None else pr[0])
        if ci < 1:
            ctx.sample({"stream": "written-file", "options": opts, "features": sorted(feats), "pdb_tail": write_pdb(atoms)[-400:], "property": "holds" if pr is None else pr[0]})
        if pr is None or pr[0] in seen:
            continue
        seen.add(pr[0])
        small, ld = minimise_written(atoms, label_differs, opts, pr[0])
        mpr = compare_written(small, ld, opts)[0] or pr
        sig = {"field": "written-file:" + mpr[0], "features": ",".join(features_of(small, ld)), "layout": "whitespace" if "--whitespace" in opts else "columns"}
        ctx.violate(sig, mpr[1], {"kind": "written-file", "atoms": small, "label_differs": ld, "opts": opts})


def run(ctx: Ctx):
    rng = ctx.rng
    n = ctx.scale(120, 3000)
    n_e2e = ctx.scale(6, 120)
    have_model = ctx.driver.available()
    ctx.extra["rule"] = (
        "windows of 2-6 residues of the offline structures with altloc / insertion code / four-character name / formal charge / 8-character coordinate / "
        "water / 5-digit serial / 2-3 models / label!=auth chain features, written as PDB and as mmCIF by the harness's own writers; a case is its feature set; "
        "distinct = distinct feature sets; the plain window (no feature) is counted as trivial"
    )
    seen = set()
    e2e_done = 0
    for ci in range(n):
        atoms, label_differs, feats = gen_structure(rng)
        ctx.evaluations += 1
        if feats:
            ctx.distinct.add(tuple(sorted(feats)))
        for f in feats or {"plain"}:
            ctx.count("features", f)
        cif_text = write_cif(atoms, label_differs)
        # ---- tie
        cs, crecs, cres = read_real(cif_text, ".cif")
        ctx.count("impl-outcome(cif)", cs)
        if have_model:
            rows = pdbx_rows(cif_text)
            req = [f"cif.ingest\t0\t{';'.join(enc_row(r) for r in rows)}"]
            sample = rows[:: max(1, len(rows) // 8)]
            req += [f"cif.line\t{enc_row(r)}" for r in sample]
            ans = ctx.driver.ask(req)
            mstatus, mres = c07.parse_model_answer(ans[0])
            if cs == "ok":
                if mstatus != "ok" or mres != cres:
                    ctx.disagree("read_cif+Biomolecule", {"cif_atom_site": cif_text[cif_text.rfind("loop_") :][:1500]}, ans[0][:300], str(cres)[:300])
            else:
                want = cs.split(":")[1]
                if mstatus != want:
                    ctx.disagree("read_cif(error class)", {"cif_atom_site": cif_text[cif_text.rfind("loop_") :][:1500]}, mstatus, cs)
            if crecs is not None:
                real_lines = {}
                for r in crecs:
                    if r == ("ENDMDL",):
                        break
                    if len(r) > 1:
                        real_lines[r[1]] = r[11]
                for r, a in zip(sample, ans[1:]):
                    line = unhexs(a.split(",")[0])
                    rl = real_lines.get(int(r["id"]))
                    if int(r["pdbx_PDB_model_num"]) == atoms[0]["model"] and rl is not None and rl != line.rstrip("\r\n"):
                        ctx.disagree("cif.atom_site(line)", {"row": r}, line, rl)
        # ---- oracle
        pr = compare(atoms, label_differs)
        ctx.count("oracle", "holds" if pr is None else pr[0])
        if ci < 2:
            ctx.sample({"features": sorted(feats), "pdb": write_pdb(atoms)[:400], "cif_rows": cif_text[cif_text.rfind("loop_") :][-400:], "property": "holds" if pr is None else pr[0]})
        if pr is not None:
            rough = (pr[0], tuple(sorted(feats)))
            if rough in seen:
                continue
            seen.add(rough)
            small, ld = minimise(atoms, label_differs, pr[0])
            mpr = compare(small, ld) or pr
            sig = {"field": mpr[0], "features": ",".join(features_of(small, ld))}
            ctx.violate(sig, mpr[1], {"atoms": small, "label_differs": ld})
        elif e2e_done < n_e2e and not any(f.startswith("models") for f in feats) and not any(a["het"] and a["resn"] not in ("HOH", "WAT") for a in atoms):
            e2e_done += 1
            ff = rng.choice(["AMBER", "PARSE", "CHARMM"])
            (sp, lp), (sc, lc) = end_to_end(atoms, label_differs, ff)
            ctx.count("end-to-end", f"{sp}/{sc}")
            if sp == "ok":
                if sc != "ok":
                    ctx.violate({"field": "end-to-end", "features": ",".join(features_of(atoms, label_differs))}, f"main_driver fails on the mmCIF encoding ({sc}) and succeeds on the PDB encoding", {"atoms": atoms, "label_differs": label_differs, "ff": ff})
                else:
                    strip = lambda ls: [l[:4] + l[5:] if not label_differs else l[:4] + l[5:] for l in ls]  # noqa: E731
                    a, b = ([x[1:4] + x[5:] for x in lp], [x[1:4] + x[5:] for x in lc]) if label_differs else (lp, lc)
                    if a != b:
                        ctx.violate({"field": "end-to-end", "features": ",".join(features_of(atoms, label_differs))}, "PQR atom lines differ between the PDB and the mmCIF encoding", {"atoms": atoms, "label_differs": label_differs, "ff": ff})
    written_stream(ctx)


def replay(ctx: Ctx, data: dict) -> bool:
    rp = data.get("replay", data)
    if rp.get("kind") == "written-file":
        pr, st = compare_written(rp["atoms"], rp["label_differs"], rp["opts"])
        print(write_pdb(rp["atoms"]))
        print("options:", " ".join(rp["opts"]), " runs (pdb/cif):", st)
        print("property:", pr or "holds")
        return pr is not None
    pr = compare(rp["atoms"], rp["label_differs"])
    print(write_pdb(rp["atoms"]))
    print("property:", pr or "holds")
    return pr is not None
