"""C18 — DX to cube conversion preserves the grid data.

Tie: real io.read_pqr + io.read_dx + io.write_cube vs Lean model P2P.Model.Dx
(float formatting symbolic in the model, rendered here with Python's format).
Oracle: independent parse of the cube text against the DX tokens."""

from __future__ import annotations

import io as _io
import math
import re
from decimal import ROUND_HALF_EVEN, Context, Decimal

from core import Ctx, hexs, unhexs

GENERATORS = ()
TRUSTED_BASE = [
    "Lean 4.33.0 kernel; axioms ⊆ {propext, Classical.choice, Quot.sound}",
    "hand-written model lean/P2P/Model/Dx.lean tied to io.py read_dx/write_cube by differential execution",
    "Python's format(v, '>11.6f') and format(v, '< 13.5E') are parameters of the model (any injective-on-shape printer); the harness checks shape and value",
    "float()/int() grammar without underscores; ASCII whitespace",
]
ASSUMPTIONS = ["DX files in the generated grammar (comment lines start with '# ')", "agreement observed only on generated inputs"]


def dec_pyfloat(s: str) -> float:
    if s == "nan":
        return math.nan
    p = s.split(":")
    if p[0] == "inf":
        return -math.inf if p[1] == "1" else math.inf
    v = float(f"{p[2]}e{p[3]}")
    return -v if p[1] == "1" else v


def render(sym: str) -> str:
    def sub(m):
        v = dec_pyfloat(m.group(2))
        return f"{v:>11.6f}" if m.group(1) == "F" else f"{v:< 13.5E}"

    return re.sub(r"<([FE])([^>]*)>", sub, sym)


def real_convert(dx_text: str, pqr_text: str):
    from pdb2pqr import io as pio

    try:
        atoms = pio.read_pqr(_io.StringIO(pqr_text))
    except (ValueError, IndexError) as e:
        return f"pqr:{type(e).__name__}", None
    try:
        dx = pio.read_dx(_io.StringIO(dx_text))
    except (ValueError, IndexError) as e:
        return f"dx:{type(e).__name__}", None
    out = _io.StringIO()
    try:
        pio.write_cube(out, dx, atoms)
    except (ValueError, IndexError, TypeError) as e:
        return f"cube:{type(e).__name__}", None
    return "ok", out.getvalue()


def fmt_val(rng, v):
    r = rng.random()
    if r < 0.6:
        return f"{v:.6e}"
    if r < 0.75:
        return f"{v:.6E}"
    if r < 0.85:
        return repr(v)
    if r < 0.92:
        return f"{v:+.3e}"
    return f"{v:.10g}"


def gen_value(rng):
    r = rng.random()
    if r < 0.1:
        return rng.choice([0.0, -0.0, 1.0, -1.0, 5e-324, 1.7976931348623157e308, 9.999995, 9.9999949, 0.5, 1e100, -1e-100])
    e = rng.uniform(-300, 300) if r < 0.3 else rng.uniform(-6, 6)
    v = rng.uniform(1, 10) * 10**e
    return -v if rng.random() < 0.5 else v


def gen_dx(rng, thorough):
    lim = 12 if thorough else 7
    nx, ny, nz = (rng.randint(1, lim) for _ in range(3))
    if rng.random() < 0.3:
        nx, ny, nz = rng.choice([(1, 1, 1), (1, 1, 2), (1, 2, 3), (1, 1, 5), (1, 1, 6), (1, 1, 7), (2, 2, 3), (2, 3, 3), (1, 1, 11), (1, 1, 12), (1, 1, 13)])
    n = nx * ny * nz
    feats = set()
    vals = [gen_value(rng) for _ in range(n)]
    toks = [fmt_val(rng, v) for v in vals]
    origin = [rng.uniform(-1e3, 1e3) if rng.random() < 0.9 else rng.uniform(-1e7, 1e7) for _ in range(3)]
    h = [[rng.uniform(0.1, 2) if i == j else 0.0 for j in range(3)] for i in range(3)]
    if rng.random() < 0.35:
        # a sheared / rotated grid: the three step vectors have off-diagonal components (non-symmetric matrix)
        h = [[round(rng.uniform(-1.5, 1.5), 3) if (i != j and rng.random() < 0.7) else h[i][j] for j in range(3)] for i in range(3)]
        feats.add("non-orthogonal-grid")
    lines = []
    if rng.random() < 0.8:
        lines += ["# Data from APBS", "# ", "# POTENTIAL (kT/e)"][: rng.randint(1, 3)]
        feats.add("comments")
    lines.append(f"object 1 class gridpositions counts {nx} {ny} {nz}")
    lines.append(f"origin {origin[0]:e} {origin[1]:e} {origin[2]:e}")
    for i in range(3):
        lines.append(f"delta {h[i][0]:e} {h[i][1]:e} {h[i][2]:e}")
    lines.append(f"object 2 class gridconnections counts {nx} {ny} {nz}")
    lines.append(f"object 3 class array type double rank 0 items {n} data follows")
    per = rng.choice([3, 3, 3, 1, 2, 4, 5, 6, 7])
    if per != 3:
        feats.add(f"per-line={per}")
    data = [" ".join(toks[i : i + per]) + rng.choice(["", " ", "  "]) for i in range(0, n, per)]
    lines += data
    trailer = ['attribute "dep" string "positions"', 'object "regular positions regular connections" class field', 'component "positions" value 1', 'component "connections" value 2', 'component "data" value 3']
    lines += trailer[: rng.choice([0, 3, 5])]
    # comment / attribute lines anywhere
    for _ in range(rng.choice([0, 0, 1, 2])):
        lines.insert(rng.randrange(len(lines) + 1), rng.choice(["# inserted comment", 'attribute "x" string "y"', "component z"]))
        feats.add("interleaved-comments")
    return (nx, ny, nz), origin, h, toks, lines, feats


def gen_pqr(rng):
    n = rng.choice([0, 1, 2, 3, 5])
    out = []
    for i in range(n):
        out.append(f"ATOM {i + 1} {rng.choice(['N', 'CA', 'O1'])} {rng.choice(['ALA', 'LIG'])} {rng.randint(1, 99)} {rng.uniform(-99, 99):.3f} {rng.uniform(-99, 99):.3f} {rng.uniform(-99, 99):.3f} {rng.uniform(-1, 1):.4f} {rng.uniform(1, 2):.4f}")
    if rng.random() < 0.3:
        out.insert(0, "REMARK   1 PQR file")
    if rng.random() < 0.3 and out:
        out.append("TER")
        out.append("END")
    return "\n".join(out) + ("\n" if out else ""), n


def oracle(shape, origin, h, toks, natoms, cube_text):
    """independent reading of the cube text. Returns None or (kind, text)"""
    lines = cube_text.split("\n")
    if len(lines) < 6:
        return ("header", "fewer than six header lines")
    try:
        l3 = lines[2].split()
        if int(l3[0]) != natoms:
            return ("header", f"atom count {l3[0]} != {natoms}")
        for k in range(3):
            if not close6f(l3[1 + k], origin[k]):
                return ("header", f"origin[{k}] {l3[1 + k]} vs {origin[k]}")
        for ax in range(3):
            g = lines[3 + ax].split()
            if int(g[0]) != -shape[ax]:
                return ("count", f"axis {ax}: {g[0]} != -{shape[ax]}")
            for k in range(3):
                want = h[ax][k] if isinstance(h[ax], (list, tuple)) else (h[ax] if k == ax else 0.0)
                if not close6f(g[1 + k], want):
                    return ("header", f"spacing[{ax}][{k}] {g[1 + k]} vs {want}")
        atom_lines = lines[6 : 6 + natoms]
        if len(atom_lines) != natoms or any(len(a.split()) != 5 for a in atom_lines):
            return ("atoms", "atom lines missing or malformed")
        serials = [int(a.split()[0]) for a in atom_lines]
        if serials != list(range(1, natoms + 1)):
            return ("atoms", f"atom serials {serials}")
        vtoks = " ".join(lines[6 + natoms :]).split()
    except (ValueError, IndexError) as e:
        return ("header", f"unparsable cube header: {e}")
    n = shape[0] * shape[1] * shape[2]
    if len(vtoks) != n or len(toks) != n:
        return ("count", f"{len(vtoks)} values in cube, {len(toks)} in DX, grid {n}")
    ctx6 = Context(prec=6, rounding=ROUND_HALF_EVEN)
    for i, (c, d) in enumerate(zip(vtoks, toks)):
        try:
            cv = Decimal(c)
        except Exception:
            return ("merge", f"value {i} unreadable: {c!r}")
        want = ctx6.create_decimal(Decimal(float(d)))
        if cv != want:
            return ("order" if any(Decimal(x) == want for x in vtoks if _isdec(x)) else "lost", f"value {i}: cube {c} vs DX {d}")
    body = lines[6 + natoms :]
    for ln in body[:-1]:
        if len(ln.split()) != 6:
            return ("layout", f"value line with {len(ln.split())} tokens")
    return None


def _isdec(x):
    try:
        Decimal(x)
        return True
    except Exception:
        return False


def close6f(tok, val):
    try:
        return Decimal(tok) == Decimal(float(f"{val:e}")).quantize(Decimal("0.000001"), rounding=ROUND_HALF_EVEN)
    except Exception:
        return False


MALFORMED = [
    ["object 1 class gridpositions counts 1 1 1", "origin 0 0 0", "delta 1 0 0", "delta 0 1 0", "delta 0 0 1", "", "1.0"],
    ["object 1 class gridpositions counts 1 1 1", "delta 1 0 0", "delta 0 1 0", "delta 0 0 1", "1.0"],
    ["origin 0 0 0", "delta 1 0 0", "delta 0 1 0", "delta 0 0 1", "1.0"],
    ["object 1 class gridpositions counts 1 1 1", "origin 0 0 0", "delta 1 0 0", "delta 0 1 0", "1.0"],
    ["object 1 class gridpositions counts 1 1 1", "origin 0 0 0", "delta 1 0 0", "delta 0 1 0", "delta 0 0 1", "1.0 abc"],
    ["#comment-without-blank", "object 1 class gridpositions counts 1 1 1"],
    ["object", "origin 0 0 0"],
    ["object 1 class gridpositions counts 1 1", "origin 0 0 0"],
    ["object 1 class gridpositions counts 1 1 x", "origin 0 0 0"],
    ["origin 0 0"],
    ["delta 1 2 z"],
    ["object 1 class gridpositions counts 2 1 1", "origin 0 0 0", "delta 1 0 0", "delta 0 1 0", "delta 0 0 1", "1.0 nan", ],
    ["object 1 class gridpositions counts 1 1 1", "origin 0 0 0", "delta 1 0 0", "delta 0 1 0", "delta 0 0 1"],
]


def run(ctx: Ctx):
    rng = ctx.rng
    n = ctx.scale(400, 20000)
    have_model = ctx.driver.available()
    ctx.extra["rule"] = (
        "generated OpenDX texts (grid shapes up to 7^3 quick / 12^3 thorough, all residues of n mod 6 and mod 3, 1-7 values per line, "
        "comment/attribute/component lines in any position, magnitudes 5e-324..1.8e308) x generated PQR atom lists (0-5 atoms); "
        "a case is (n mod 6, n<6, values per line, natoms>0, feature set); distinct = distinct tuples; the empty grid does not occur"
    )
    cases = []
    for _ in range(n):
        shape, origin, h, toks, lines, feats = gen_dx(rng, ctx.thorough)
        pqr, natoms = gen_pqr(rng)
        nl = "\r\n" if rng.random() < 0.1 else "\n"
        cases.append((shape, origin, h, toks, nl.join(lines) + nl, pqr, natoms, feats, False))
    for m in MALFORMED:
        cases.append(((1, 1, 1), [0, 0, 0], [1, 1, 1], [], "\n".join(m) + "\n", "ATOM 1 N ALA 1 0.0 0.0 0.0 0.1 1.0\n", 1, {"malformed"}, True))
    reqs = []
    for c in cases:
        dx_lines = _io.StringIO(c[4], newline=None).readlines()
        reqs.append(f"dx.convert\t{';'.join(hexs(l) for l in dx_lines)}\t{hexs(c[5])}")
    answers = ctx.driver.ask(reqs) if have_model else None
    for i, (shape, origin, h, toks, dx_text, pqr, natoms, feats, malformed) in enumerate(cases):
        ctx.evaluations += 1
        status, out = real_convert(dx_text, pqr)
        nvals = len(toks)
        ctx.count("n mod 6", nvals % 6)
        ctx.count("impl-outcome", status)
        if not malformed:
            ctx.distinct.add((nvals % 6, nvals < 6, tuple(sorted(feats)), natoms > 0))
        else:
            ctx.distinct.add(("malformed", status))
        if answers is not None:
            a = answers[i]
            if a.startswith("ok:"):
                mout = render(unhexs(a[3:]))
                if status != "ok" or mout != out:
                    ctx.disagree("read_dx+write_cube", {"dx": dx_text[:2000], "pqr": pqr}, mout[:500], f"{status}: {str(out)[:500]}")
            elif a != status:
                ctx.disagree("read_dx+write_cube(error class)", {"dx": dx_text[:2000], "pqr": pqr}, a, status)
        if i < 2:
            ctx.sample({"dx": dx_text[:500], "pqr": pqr[:200], "cube": (out or status)[:500]})
        if malformed:
            continue
        if status != "ok":
            ctx.violate({"kind": "crash", "status": status, "n_mod_6": nvals % 6}, f"conversion of a well-formed DX file failed with {status}", {"dx": dx_text, "pqr": pqr})
            continue
        pr = oracle(shape, origin, h, toks, natoms, out)
        ctx.count("oracle", "holds" if pr is None else pr[0])
        if pr is not None:
            ctx.violate({"kind": pr[0], "n_mod_6": nvals % 6, "lt6": nvals < 6}, f"cube does not preserve the DX data ({pr[0]}): {pr[1]}", {"dx": dx_text, "pqr": pqr, "shape": shape})


def replay(ctx: Ctx, data: dict) -> bool:
    rp = data.get("replay", data)
    status, out = real_convert(rp["dx"], rp["pqr"])
    print("status:", status)
    if status != "ok":
        return True
    if "shape" not in rp:
        return False
    # re-derive tokens from the DX text
    toks = []
    origin, h = None, []
    for l in rp["dx"].splitlines():
        w = l.split()
        if not w or w[0] in ("#", "attribute", "component", "object"):
            continue
        if w[0] == "origin":
            origin = [float(x) for x in w[1:4]]
        elif w[0] == "delta":
            h.append(max(float(x) for x in w[1:4]))
        else:
            toks += w
    natoms = sum(1 for l in rp["pqr"].splitlines() if l.startswith("ATOM"))
    pr = oracle(tuple(rp["shape"]), origin, h, toks, natoms, out)
    print("oracle:", pr)
    return pr is not None
