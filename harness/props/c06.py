"""C06 — titration follows pKa versus pH and stays within force-field support.

Tie: (A) the real Biomolecule.apply_pka_values on the whole abstract decision domain
(force field x residue name x terminus flags x pH</=/>pKa) vs the Lean model pkaStep, exhaustively;
(B) the three dictionary keys; (C) the dictionary main.non_trivial builds from the pKa rows.
Oracle: real runs whose pKa source (main.run_propka) is replaced by a harness-supplied table:
the final state of every titratable group vs pH<pKa, support decided by an independent reference
run in which the state is pre-named in the input; no residue dropped; charge antitone in pH.
The cells come in two resolutions: pKa/pH on the two-decimal grid (far, near and equal), and "near" cells whose
pKa carries PROPKA's full float precision and lies closer to the pH than 0.005 on either side (so that any
rounding, formatting or truncation of the pKa or pH between the pKa source and the decision changes the outcome)."""

from __future__ import annotations

import logging
import random
from decimal import Decimal

import gen_struct as G
from core import Ctx, hexs, unhexs
from props import c01
from props.c17 import bits, unbits

import gen.consts as genconsts
import gen.ff as genff
import gen.ffkeys as genffkeys
import gen.topology as gentopo

GENERATORS = (gentopo.generate, genff.generate, genconsts.generate)
GENERATORS2 = (genffkeys.generate,)
TRUSTED_BASE = [
    "Lean 4.33.0 kernel; axioms ⊆ {propext, Classical.choice, Quot.sound}",
    "hand-written model lean/P2P/Model/Pka.lean tied to biomolecule.apply_pka_values by EXHAUSTIVE differential execution over its discrete inputs, and to main.non_trivial's dictionary construction on generated pKa tables",
    "PROPKA itself is not verified: pKa values are an input (the harness replaces main.run_propka from outside; a small sweep runs the real PROPKA)",
    "force-field support of a state is decided by a reference run with the state pre-named in the input file (documented feature)",
]
ASSUMPTIONS = ["pH within [0,14] (check_options rejects the rest)", "pKa rows in PROPKA's row format"]
FFS = ["amber", "charmm", "parse", "peoepb", "swanson", "tyl06"]
TITR = ["ARG", "ASP", "CYS", "GLU", "HIS", "LYS", "TYR"]
NONDEFAULT = {"ASP": "ASH", "GLU": "GLH", "HIS": "HIP", "CYS": "CYM", "TYR": "TYM", "LYS": "LYN", "ARG": "AR0"}
DEFAULT_PROT = {"ASP": False, "GLU": False, "HIS": False, "CYS": True, "TYR": True, "LYS": True, "ARG": True, "N+": True, "C-": False}


class Warned(logging.Handler):
    def __init__(self):
        super().__init__(level=logging.WARNING)
        self.n = 0
        self.msgs = []

    def emit(self, record):
        self.n += 1
        self.msgs.append(record.getMessage())


# ------------------------------------------------------------------ (A)


def one_residue_bio():
    from pdb2pqr import io as pio
    from pdb2pqr import main as pmain

    rng = random.Random(7)
    _f, res = G.window(rng, 1, must_have="ALA")
    G.set_chain(res, "A", 12)
    text = G.to_pdb([res])
    import os
    import tempfile

    fd, path = tempfile.mkstemp(suffix=".pdb", prefix="c06_")
    with os.fdopen(fd, "w") as f:
        f.write(text)
    try:
        pdblist, _ = pio.get_molecule(path)
    finally:
        os.unlink(path)
    bio, _d, _l = pmain.setup_molecule(pdblist, pio.get_definitions(), None)
    return bio


BAD_CELLS = []


def tie_decision(ctx: Ctx):
    from pdb2pqr import biomolecule as bm

    logging.disable(logging.NOTSET)
    lg = logging.getLogger("pdb2pqr.biomolecule")
    lg.setLevel(logging.WARNING)
    lg.propagate = False
    h = Warned()
    lg.addHandler(h)
    bio = one_residue_bio()
    res = bio.residues[0]
    applied = []
    orig = bm.Biomolecule.apply_patch
    bm.Biomolecule.apply_patch = lambda self, name, residue: applied.append(name)
    reqs, impl = [], []
    try:
        names = TITR + ["ALA", "GLY", "ASH", "HIP", "CYX", "SER"]
        for ff in FFS + ["user", "AMBER"]:
            for rn in names:
                for isn in (False, True):
                    for isc in (False, True):
                        for rel in ("lt", "eq", "gt"):
                            for present in ("NCS", "S", "N", "C", ""):
                                ph = 7.0
                                v = {"lt": 9.25, "eq": 7.0, "gt": 3.5}[rel]  # ph < v, ph == v, ph > v
                                res.name, res.is_n_term, res.is_c_term = rn, (1 if isn else 0), (1 if isc else 0)
                                res.res_seq, res.chain_id = 12, "A"
                                d = {}
                                if "N" in present:
                                    d["N+   12 A"] = v
                                if "C" in present:
                                    d["C-   12 A"] = v
                                if "S" in present:
                                    d[f"{rn} 12 A"] = v
                                applied.clear()
                                h.n = 0
                                bio.apply_pka_values(ff, ph, dict(d))
                                acts = [f"patch:{p}" for p in applied]
                                impl.append((ff, rn, isn, isc, rel, present, sorted(acts), h.n))
                                vb = bits(v)
                                reqs.append(
                                    f"pka.step\t{hexs(ff)}\t{hexs(rn)}\t{int(isn)}{int(isc)}\t{bits(ph)}\t{vb if 'N' in present else '-'}\t{vb if 'C' in present else '-'}\t{vb if 'S' in present else '-'}"
                                )
    finally:
        bm.Biomolecule.apply_patch = orig
        lg.removeHandler(h)
        lg.propagate = True
        logging.disable(logging.CRITICAL)
    ans = ctx.driver.ask(reqs) if ctx.driver.available() else None
    for i, (ff, rn, isn, isc, rel, present, acts, nwarn) in enumerate(impl):
        ctx.evaluations += 1
        ctx.distinct.add(("decision", ff, rn, isn, isc, rel, present))
        if ans is None:
            continue
        m = ans[i].split(",") if ans[i] else []
        mp = sorted(x for x in m if x.startswith("patch:"))
        mw = sum(1 for x in m if x == "warn")
        # leftover-key warnings: two log records when the dictionary is not empty at the end + one per key
        if mp != acts:
            ctx.disagree("apply_pka_values(patches)", {"ff": ff, "resname": rn, "is_n_term": isn, "is_c_term": isc, "ph_vs_pka": rel, "keys": present}, str(mp), str(acts))
            BAD_CELLS.append((ff, rn, isn, isc, rel, present))
        else:
            leftover = 0
            if "N" in present and not isn:
                leftover += 1
            if "C" in present and not isc:
                leftover += 1
            expected_w = mw + (1 + leftover if leftover else 0)
            if expected_w != nwarn:
                ctx.disagree("apply_pka_values(warnings)", {"ff": ff, "resname": rn, "is_n_term": isn, "is_c_term": isc, "ph_vs_pka": rel, "keys": present}, str(expected_w), str(nwarn))
    ctx.count("decision-cells", "total", len(impl))
    # (B) keys: a dictionary made of the model's keys must be consumed entirely by the real code
    bio = one_residue_bio()
    res = bio.residues[0]
    bm.Biomolecule.apply_patch = lambda self, name, residue: None
    try:
        for num in (-5, 1, 12, 123, 1234):
            for ch in ("A", "B", ""):
                if not ctx.driver.available():
                    break
                kn, kc, ks = (unhexs(x) for x in ctx.driver.ask([f"pka.keys\t{hexs('ASP')}\t{num}\t{hexs(ch)}"])[0].split(","))
                res.name, res.is_n_term, res.is_c_term, res.res_seq, res.chain_id = "ASP", 1, 1, num, ch
                d = {kn: 1.0, kc: 1.0, ks: 1.0}
                bio.apply_pka_values("parse", 7.0, d)
                ctx.evaluations += 1
                if d:
                    ctx.disagree("apply_pka_values(keys)", {"res_seq": num, "chain": ch}, str([kn, kc, ks]), f"not consumed: {list(d)}")
    finally:
        bm.Biomolecule.apply_patch = orig


# ------------------------------------------------------------------ pipeline with a supplied pKa table


class Table:
    """pKa source replacing main.run_propka"""

    def __init__(self, values):
        self.values = values  # {(group, res_num, chain): pKa}; group = residue name, "N+" or "C-"
        self.rows = None
        self.dict_seen = None

    def __call__(self, args, biomolecule):
        from pdb2pqr import aa

        rows = []
        for r in biomolecule.residues:
            if not isinstance(r, aa.Amino):
                continue
            for grp in ([r.name] if r.name in TITR else []) + (["N+"] if r.is_n_term else []) + (["C-"] if r.is_c_term else []):
                k = (grp, r.res_seq, r.chain_id)
                if k in self.values:
                    rows.append({"res_num": r.res_seq, "ins_code": r.ins_code, "res_name": r.name, "chain_id": r.chain_id, "group_label": f"{grp:<3s}{r.res_seq:>4d}{r.chain_id:>2s}", "group_type": None, "pKa": self.values[k], "model_pKa": self.values[k], "buried": 0.0, "coupled_group": None})
        self.rows = rows
        return rows, ""


def run_titrated(text, ff, ph, values, extra=()):
    from pdb2pqr import biomolecule as bm
    from pdb2pqr import main as pmain

    t = Table(values)
    orig = pmain.run_propka
    orig_apply = bm.Biomolecule.apply_pka_values
    seen = {}

    def wrapped(self, force_field, ph_, pkadic):
        seen["dict"] = dict(pkadic)
        return orig_apply(self, force_field, ph_, pkadic)

    pmain.run_propka = t
    bm.Biomolecule.apply_pka_values = wrapped
    lg = logging.getLogger("pdb2pqr.biomolecule")
    try:
        r = G.run_pipeline(text, [f"--ff={ff.upper()}", "--whitespace", "--keep-chain", "--titration-state-method=propka", f"--with-ph={ph}", *extra])
    finally:
        pmain.run_propka = orig
        bm.Biomolecule.apply_pka_values = orig_apply
    r.table = t
    r.pkadic = seen.get("dict")
    return r


_FFKEYS = {}


def ff_keys(ff):
    if ff not in _FFKEYS:
        _FFKEYS[ff] = set(genffkeys.dump(ff.upper()))
    return _FFKEYS[ff]


def res_state(res, missed):
    info = G.residue_info(res)
    ffn = info["ffname"] or ""
    base = ffn
    for pre in ("NEUTRAL-N", "NEUTRAL-C", "N", "C"):
        if (info["n"] and pre in ("NEUTRAL-N", "N") or info["c"] and pre in ("NEUTRAL-C", "C")) and ffn.startswith(pre) and len(ffn) > len(pre) + 2:
            base = ffn[len(pre) :]
            break
    full = not any(id(a) in missed for a in res.atoms) and len(res.atoms) > 0
    return {"ffname": ffn, "base": base, "neutral_n": ffn.startswith("NEUTRAL-N"), "neutral_c": ffn.startswith("NEUTRAL-C"), "full": full, "n": info["n"], "c": info["c"]}


def total_charge(run):
    return sum(Decimal(repr(r.charge)) for r in run.biomolecule.residues)


def gen_cell(rng, grp=None, pos=None):
    grp = grp or rng.choice(TITR + ["N+", "C-"])
    pos = pos or (rng.choice(["N", "I", "C"]) if grp in TITR else ("N" if grp == "N+" else "C"))
    for _ in range(50):
        must = grp if grp in TITR else None
        _f, res = G.window(rng, rng.choice([3, 4, 5]), must_have=must)
        G.set_chain(res, "A", rng.choice([1, 7, 150]))
        idx = [i for i, r in enumerate(res) if (r[0].resn == grp) or grp in ("N+", "C-")]
        want = {"N": 0, "C": len(res) - 1}.get(pos)
        if grp in TITR:
            if pos == "I":
                idx = [i for i in idx if 0 < i < len(res) - 1]
            else:
                idx = [i for i in idx if i == want]
            if not idx:
                continue
            ti = rng.choice(idx)
        else:
            ti = want
        return grp, pos, res, ti
    return None


NEAR_FLAVOURS = ("ph-on-grid", "ph-off-grid")


def near_pair(rng, side, flavour):
    """(pH, pKa) closer than half a unit of the second decimal, pH strictly on the requested side of the pKa.
    ph-on-grid: the pH is what a user types (one or two decimals), the pKa is a full-precision float next to it;
    ph-off-grid: the pKa is an arbitrary float and the pH is given with three or more decimals."""
    d = rng.choice([0.001, 0.002, 0.003, 0.004])
    if rng.random() < 0.5:
        d += rng.uniform(0.0, 0.0009)
    sgn = 1.0 if side == "below" else -1.0  # below: pH < pKa
    if flavour == "ph-on-grid":
        ph = round(rng.uniform(0.5, 13.5), rng.choice([1, 2, 2]))
        pka = ph + sgn * d
    else:
        pka = rng.uniform(0.5, 13.5)
        if rng.random() < 0.5:
            pka = round(pka, 3)
        ph = pka - sgn * d
        if rng.random() < 0.5:
            ph = round(ph, 4)
    assert 0.0 <= ph <= 14.0 and 0.0005 < abs(ph - pka) < 0.005 and ((ph < pka) == (side == "below")), (ph, pka, side)
    return ph, pka


def check_cell(ctx: Ctx, rng, ff, grp=None, pos=None, side=None, near=None):
    cell = gen_cell(rng, grp, pos)
    if cell is None:
        return []
    grp, pos, res, ti = cell
    text = G.to_pdb([res])
    tres = res[ti]
    key = (grp, tres[0].resseq, "A")
    if near is not None:
        side = side or rng.choice(["below", "above"])
        ph, pka = near_pair(rng, side, near)
        ctx.count("near-cells(|pH-pKa|<0.005)", f"{grp}:{side}:{near}")
    else:
        pka = round(rng.uniform(0.5, 13.5), 2)
        side = side or rng.choice(["below", "above", "equal"])
        ph = {"below": max(0.0, pka - rng.choice([0.01, 0.5, 3])), "above": min(14.0, pka + rng.choice([0.01, 0.5, 3])), "equal": pka}[side]
        ph = round(ph, 2)
    # all other titratable groups keep their default state: pKa far on the default side
    values = {}
    for r in res:
        rn = r[0].resn
        if rn in TITR and r is not tres:
            values[(rn, r[0].resseq, "A")] = 15.0 if DEFAULT_PROT[rn] else -1.0
    values[key] = pka
    # --ffout only renames the output (C09): every third cell carries an output naming scheme different from the force
    # field that supplies the parameters; the decision and the support rule stay those of --ff (own PRNG stream, so the
    # cells drawn above are what they were)
    extra = ()
    fr = random.Random(f"ffout:{ctx.seed}:{ctx.evaluations}")
    if fr.random() < 0.34:
        other = fr.choice([f for f in ("AMBER", "CHARMM", "PARSE", "TYL06", "PEOEPB", "SWANSON") if f.lower() != ff.lower()])
        extra = (f"--ffout={other}",)
        ctx.count("cells-with-ffout", f"{ff}->{other}")
    run = run_titrated(text, ff, ph, values, extra)
    ctx.evaluations += 1
    ctx.distinct.add(("cell", ff, grp, pos, side) if near is None else ("near-cell", ff, grp, pos, side, near))
    ctx.count("cells", f"{ff}:{grp}:{pos}")
    ctx.count("cell-outcome", run.status)
    if near is not None:
        ctx.count("near-cell-outcome", run.status)
    sig0 = {"ff": ff, "group": grp, "position": pos, "side": "ph<pKa" if ph < pka else "ph>=pKa"}
    replay = {"pdb": text, "ff": ff, "ph": ph, "values": [[list(k), v] for k, v in values.items()], "target": list(key), "extra": list(extra)}
    if extra:
        sig0["ffout"] = "differs"
    if near is not None:
        sig0["resolution"] = "|pH-pKa|<0.005"
        replay["stream"] = f"near:{near}"
    out = []
    # (C) the dictionary handed to apply_pka_values vs the model
    if run.pkadic is not None and ctx.driver.available() and run.table.rows is not None:
        enc = ";".join(f"{hexs(r['res_name'])},{r['res_num']},{hexs(r['chain_id'])},{hexs(r['group_label'])},{bits(float(r['pKa']))}" for r in run.table.rows)
        ans = ctx.driver.ask([f"pka.dict\t{enc}"])[0]
        md = {}
        for it in ans.split(";") if ans else []:
            k, _, v = it.partition("=")
            md[unhexs(k)] = unbits(v)
        if md != run.pkadic:
            ctx.disagree("non_trivial(pKa dictionary)", {"rows": run.table.rows}, str(md), str(run.pkadic))
    # reference: is the non-default state supported at this position by this force field?
    want_prot = ph < pka
    nondefault_wanted = want_prot != DEFAULT_PROT[grp]
    if run.status != "ok":
        # does the same input succeed without titration?
        base = G.run_pipeline(text, [f"--ff={ff.upper()}", "--whitespace", "--keep-chain"])
        if base.status == "ok":
            out.append(({**sig0, "kind": "run-fails"}, f"titration makes the run fail ({run.status}: {str(run.exc.__cause__ or run.exc)[:120]}); without titration it succeeds", replay))
        return out
    missed = {id(a) for a in (run.missed or [])}
    rr = run.biomolecule.residues[ti]
    st = res_state(rr, missed)
    if grp in TITR:
        in_nondefault = st["base"] == NONDEFAULT[grp] or (grp == "HIS" and st["base"] == "HIP")
    elif grp == "N+":
        in_nondefault = st["neutral_n"]
    else:
        in_nondefault = st["neutral_c"]
    # no residue may be dropped because of titration
    for k, r2 in enumerate(run.biomolecule.residues):
        s2 = res_state(r2, missed)
        if not s2["full"]:
            base = G.run_pipeline(text, [f"--ff={ff.upper()}", "--whitespace", "--keep-chain"])
            bm_ = {id(a) for a in (base.missed or [])} if base.status == "ok" else None
            if bm_ is not None and res_state(base.biomolecule.residues[k], bm_)["full"]:
                out.append(({**sig0, "kind": "dropped"}, f"{r2} ({s2['ffname']}) has unassigned atoms after titration but is fully parameterised without it", replay))
                return out
    if not nondefault_wanted:
        if in_nondefault:
            out.append(({**sig0, "kind": "wrong-state"}, f"{rr}: state {st['ffname']} although pH {ph} vs pKa {pka} asks for the default state", replay))
        return out
    if in_nondefault:
        return out  # applied and (checked above) fully parameterised
    # refused: then the state must be unsupported
    if grp in TITR:
        res2 = [[a.copy() for a in r] for r in res]
        for a in res2[ti]:
            a.resn = NONDEFAULT[grp]
        ref = G.run_pipeline(G.to_pdb([res2]), [f"--ff={ff.upper()}", "--whitespace", "--keep-chain"])
    else:
        ref = G.run_pipeline(text, [f"--ff={ff.upper()}", "--whitespace", "--keep-chain", "--neutraln" if grp == "N+" else "--neutralc"])
    supported = False
    if ref.status == "ok":
        rm = {id(a) for a in (ref.missed or [])}
        s3 = res_state(ref.biomolecule.residues[ti], rm)
        if grp in TITR:
            # "supported" = the force-field DATA has the state's entry at this chain position (final map of the
            # model, itself compared exhaustively with the real Forcefield.map by C01) and a residue pre-named in
            # that state comes out fully parameterised. The NAME the reference run gives the state is deliberately
            # not consulted: a defect in the state naming would corrupt it in the same way as in the run under test.
            key = {"N": "N", "I": "", "C": "C"}[pos] + NONDEFAULT[grp]
            supported = s3["full"] and key in ff_keys(ff)
        else:
            supported = s3["full"] and ((grp == "N+" and s3["neutral_n"]) or (grp == "C-" and s3["neutral_c"]))
    if supported:
        kind = "key-lost" if grp in ("N+", "C-") else "refused-supported"
        out.append(({**sig0, "kind": kind}, f"{rr}: pH {ph} vs pKa {pka} asks for the non-default state, the force field supports it here (reference run {('pre-named ' + NONDEFAULT[grp]) if grp in TITR else 'with neutral terminus'} is fully parameterised), but the group kept {st['ffname']}", replay))
    return out


def check_monotone(ctx: Ctx, rng, ff):
    _f, res = G.window(rng, rng.choice([4, 6, 8]))
    G.set_chain(res, "A", 1)
    text = G.to_pdb([res])
    values = {}
    for i, r in enumerate(res):
        rn = r[0].resn
        if rn in TITR:
            values[(rn, r[0].resseq, "A")] = round(rng.uniform(1, 13), 2)
    values[("N+", res[0][0].resseq, "A")] = round(rng.uniform(6, 10), 2)
    values[("C-", res[-1][0].resseq, "A")] = round(rng.uniform(2, 5), 2)
    phs = sorted({0.0, 14.0, *[round(rng.uniform(0, 14), 2) for _ in range(3)], *[v for v in values.values()][:2]})
    prev = None
    out = []
    for ph in phs:
        run = run_titrated(text, ff, ph, values)
        ctx.evaluations += 1
        ctx.count("sweep-outcome", run.status)
        if run.status != "ok":
            continue
        missed = run.missed or []
        if missed:
            continue
        q = total_charge(run)
        if prev is not None and q > prev[1]:
            out.append(({"ff": ff, "group": "-", "position": "-", "side": "-", "kind": "charge-increase"}, f"total charge rises from {prev[1]} at pH {prev[0]} to {q} at pH {ph}", {"pdb": text, "ff": ff, "phs": [prev[0], ph], "values": [[list(k), v] for k, v in values.items()]}))
            break
        prev = (ph, q)
    ctx.distinct.add(("sweep", ff, tuple(sorted({k[0] for k in values}))))
    return out


def run(ctx: Ctx):
    rng = ctx.rng
    G.quiet()
    ctx.extra["rule"] = (
        "(A) every (force field incl. user/upper-case, residue name, N/C flags, pH</=/>pKa, keys present) of apply_pka_values: exhaustive; "
        "(cells) peptide windows with each titratable group (ASP GLU HIS CYS TYR LYS ARG N+ C-) at N-terminal/internal/C-terminal position x six force fields x pH below/above/equal to a supplied pKa, "
        "with reference runs; (near cells) the same for every group x side with a full-precision pKa closer to the pH than 0.005 (pH typed on the 1-2 decimal grid, or off it); (sweeps) pH sweeps of windows with random pKa tables; a case is (ff, group, position, side); distinct counts distinct tuples"
    )
    del BAD_CELLS[:]
    tie_decision(ctx)
    seen = set()
    # failing-input search: where the exhaustive decision tie disagrees, run real structures in exactly those cells
    targeted = []
    for ff, rn, isn, isc, rel, present in BAD_CELLS:
        if ff in FFS and rn in TITR and "S" in present and not (isn and isc):
            t = (ff, rn, "N" if isn else "C" if isc else "I", {"lt": "below", "eq": "equal", "gt": "above"}[rel])
            if t not in targeted:
                targeted.append(t)
    for ff, rn, pos, side in targeted[:24]:
        ctx.count("targeted-cells(after a tie disagreement)", f"{ff}:{rn}:{pos}:{side}")
        for sig, msg, rp in check_cell(ctx, rng, ff, rn, pos, side):
            k = tuple(sorted(sig.items()))
            if k in seen:
                continue
            seen.add(k)
            ctx.violate(sig, msg, rp)
    n_cells = ctx.scale(70, 4000)
    for ci in range(n_cells):
        ff = FFS[ci % len(FFS)]
        for sig, msg, rp in check_cell(ctx, rng, ff):
            k = tuple(sorted(sig.items()))
            if k in seen:
                continue
            seen.add(k)
            ctx.violate(sig, msg, rp)
            ctx.sample({"signature": sig, "message": msg}, limit=8)
    for ci in range(ctx.scale(6, 200)):
        ff = FFS[ci % len(FFS)]
        for sig, msg, rp in check_monotone(ctx, rng, ff):
            k = tuple(sorted(sig.items()))
            if k in seen:
                continue
            seen.add(k)
            ctx.violate(sig, msg, rp)
    # near cells: every group kind x both sides x both pH flavours, force field cycling, position drawn by gen_cell
    ni = rng.randrange(len(FFS))
    for _rep in range(ctx.scale(1, 20)):
        for grp in TITR + ["N+", "C-"]:
            for side in ("below", "above"):
                for flavour in NEAR_FLAVOURS:
                    ff = FFS[ni % len(FFS)]
                    ni += 1
                    for sig, msg, rp in check_cell(ctx, rng, ff, grp=grp, side=side, near=flavour):
                        k = tuple(sorted(sig.items()))
                        if k in seen:
                            continue
                        seen.add(k)
                        ctx.violate(sig, msg, rp)
                        ctx.sample({"signature": sig, "message": msg}, limit=8)
    if not ctx.samples:
        ctx.sample({"cells": dict(list(ctx.distribution.get("cells", {}).items())[:10])})


def replay(ctx: Ctx, data: dict) -> bool:
    rp = data.get("replay", data)
    values = {tuple(k): v for k, v in rp["values"]}
    if "phs" in rp:
        qs = []
        for ph in rp["phs"]:
            r = run_titrated(rp["pdb"], rp["ff"], ph, values, tuple(rp.get("extra", ())))
            print(ph, r.status, total_charge(r) if r.status == "ok" else r.exc)
            qs.append(total_charge(r) if r.status == "ok" else None)
        return None not in qs and qs[1] > qs[0]
    r = run_titrated(rp["pdb"], rp["ff"], rp["ph"], values, tuple(rp.get("extra", ())))
    print("status:", r.status, r.exc)
    if r.status == "ok":
        missed = {id(a) for a in (r.missed or [])}
        for x in r.biomolecule.residues:
            print(" ", x, res_state(x, missed))
    return True
