"""C03 — no atom is silently lost, duplicated or invented.

Tie: trace replay. Every method call on the real Flip / Alcoholic / Water optimisation objects
(and HydrogenRoutines.cleanup) is logged with the residue's atom-name list before and after it,
its return value, the `fixed` flag and the oxygen's bond count; the names-level model
(Model/Atoms.lean, through the driver) must produce the same list after every call.
Oracle on the real run: (a) the final atom names of every fully parameterised residue — no
duplicate, no LP*/…FLIP, and exactly the atom set of its run-time reference or of the definition
its final state is named after; (b) every input heavy atom of a recognised residue is in the final
model exactly once unless the run reported deleting it (or a terminus patch removes it by
design); (c) found ∪ missing = all final atoms, and the PQR has exactly the found ones."""

from __future__ import annotations

import sys

import gen_struct as G
from core import Ctx, Driver, hexs, unhexs
from props import c01, c04

TRUSTED_BASE = [
    "Lean 4.33.0 kernel; axioms ⊆ {propext, Classical.choice, Quot.sound}",
    "hand-written names-level model lean/P2P/Model/Atoms.lean of residue.py add/remove/rename and of hydrogens/structures.py Flip, Alcoholic, Water and hydrogens/__init__.py cleanup, tied to the real objects by replaying every logged method call",
    "geometry enters the model only as logged outcomes (return values, the oxygen's bond count); the theorems quantify over all outcomes",
    "Carboxylic is modelled for ASH and GLH (lean/P2P/Model/Carboxylic.lean, trace-replayed); the neutral C-terminus variant (CTR) is NOT modelled: covered by the final-state oracle on the runs made (partial)",
    "the composition apply_patch* ; repair_heavy ; (CYX / pKa patches / remove_hydrogens)* ; add_hydrogens is modelled per residue (lean/P2P/Model/Stages.lean over Topology.applyPatch and the generated topology) and replayed on its own state against every residue of every run, with a frame check that nothing else changes a residue's atoms between those stages; which residue gets which patch (set_termini, apply_pka_values, update_ss_bridges) is modelled under C02 / C06 / C13",
    "no nucleic-acid structure is available offline: the 5'-phosphate removal is not exercised",
]
ASSUMPTIONS = ["residues with a reference definition; duplicate-free atom names on input"]
PSEUDO = ("N+1", "C-1")


class OptMonitor:
    """logs every method call on the optimisation objects with the residue's names around it"""

    METHODS = ("__init__", "fix_flip", "try_donor", "try_acceptor", "try_both", "finalize", "complete", "fix")

    def __init__(self):
        self.records = []
        self.carb = {}  # id(Carboxylic object) -> proton / oxygen names
        self.stack = []
        self.cleanup = []
        self.warnings = []
        self.removed = []  # (residue, atom name, caller) for every remove_atom
        self._undo = []

    def __enter__(self):
        from pdb2pqr import biomolecule, hydrogens, residue
        from pdb2pqr.hydrogens import structures

        mon = self

        def names(res):
            return [a.name for a in res.atoms]

        def wrap(klass, mname):
            if mname not in klass.__dict__:
                return
            orig = klass.__dict__[mname]

            def wrapper(self_, *a, **k):
                cls = klass.__name__
                if mname == "__init__":
                    res = a[0]
                elif mname in ("try_acceptor",):
                    res = a[0].residue  # acc.residue
                elif mname in ("try_donor", "try_both", "fix_flip"):
                    res = a[0].residue
                else:
                    res = self_.residue
                rec = {"cls": cls, "method": mname, "obj": self_, "res": res, "before": names(res), "fixed": bool(getattr(res, "fixed", 0)), "children": [], "arg": None, "b": None}
                if mname == "fix_flip":
                    rec["arg"] = a[0].name
                if mname == "__init__" and cls == "Flip":
                    pivot = a[1].optangle.split()[2]
                    mv = res.get_moveable_names(pivot)
                    if res.is_c_term:
                        mv = [n for n in mv if n != "HO"]
                    rec["arg"] = mv
                if mname == "__init__" and cls == "Alcoholic":
                    rec["arg"] = next(iter(a[1].map.keys()))
                if mname in ("finalize", "complete") and cls == "Alcoholic":
                    rec["b"] = len(self_.atomlist[0].bonds)
                    rec["arg"] = self_.hname
                if mname in ("try_donor", "try_both") and cls == "Alcoholic":
                    rec["arg"] = self_.hname
                if mname in ("finalize", "complete") and cls == "Water":
                    o = res.get_atom("O")
                    rec["b"] = len(o.bonds) if o is not None else None
                if mname == "try_both":
                    rec["accobj"] = a[2]
                if cls == "Carboxylic":
                    if mname == "fix":
                        res = a[0].residue
                        rec["res"] = res
                        rec["before"] = names(res)
                    if mname == "__init__":
                        keys = list(a[1].map.keys())
                        h2 = next((k for k in keys if k.endswith("2")), "")
                        h1 = next((k for k in keys if not k.endswith("2")), "")
                        mon.carb[id(self_)] = {"p1": h1, "p2": h2, "o1": a[1].map[h1].bond if h1 else "", "o2": a[1].map[h2].bond if h2 else ""}
                        rec["c_before"] = None
                    else:
                        rec["c_before"] = ([(id(x), x.name) for x in self_.hlist], [x.name for x in self_.atomlist], bool(res.fixed))
                if mon.stack:
                    mon.stack[-1]["children"].append(rec)
                mon.stack.append(rec)
                try:
                    ret = orig(self_, *a, **k)
                    rec["raised"] = None
                except Exception as e:  # noqa: BLE001
                    rec["raised"] = type(e).__name__
                    raise
                finally:
                    mon.stack.pop()
                    rec["after"] = names(res)
                    if cls == "Carboxylic" and hasattr(self_, "hlist"):
                        rec["c_after"] = ([(id(x), x.name) for x in self_.hlist], [x.name for x in self_.atomlist], bool(res.fixed))
                    mon.records.append(rec)
                rec["ret"] = ret
                return ret

            setattr(klass, mname, wrapper)
            mon._undo.append(lambda: setattr(klass, mname, orig))

        for klass in (structures.Flip, structures.Alcoholic, structures.Water, structures.Carboxylic):
            for mname in self.METHODS:
                wrap(klass, mname)

        orig_cleanup = hydrogens.HydrogenRoutines.cleanup

        def cleanup(self_):
            before = {id(r): names(r) for r in self_.debumper.biomolecule.residues}
            out = orig_cleanup(self_)
            for r in self_.debumper.biomolecule.residues:
                mon.cleanup.append({"res": r, "name": r.name, "patches": list(getattr(r, "patches", []) or []), "before": before[id(r)], "after": names(r)})
            return out

        hydrogens.HydrogenRoutines.cleanup = cleanup
        self._undo.append(lambda: setattr(hydrogens.HydrogenRoutines, "cleanup", orig_cleanup))

        def wrap_bio(mname, store):
            orig = getattr(biomolecule.Biomolecule, mname)

            def wrapper(self_, *a, **k):
                from pdb2pqr import aa, na

                mon.seq += 1
                seq = mon.seq
                before = [(r, names(r), list(r.reference.map.keys()), bool(getattr(r, "ss_bonded", 0)) and isinstance(r, aa.CYS), r.name) for r in self_.residues if isinstance(r, (aa.Amino, na.Nucleic)) and getattr(r, "reference", None) is not None]
                missing_total = self_.num_missing_heavy if mname == "repair_heavy" else None
                raised = None
                try:
                    return orig(self_, *a, **k)
                except Exception as e:  # noqa: BLE001
                    raised = type(e).__name__
                    raise
                finally:
                    for r, b, refn, ssb, rn in before:
                        store.append({"res": r, "before": b, "ref": refn, "after": names(r), "ss": ssb, "raised": raised, "missing_total": missing_total, "hlist": a[0] if a else k.get("hlist"), "seq": seq, "stage": mname, "ref_after": list(r.reference.map.keys()), "resname": rn})

            setattr(biomolecule.Biomolecule, mname, wrapper)
            mon._undo.append(lambda: setattr(biomolecule.Biomolecule, mname, orig))

        self.repairs = []
        self.addhs = []
        self.strips = []
        self.patches = []
        self.seq = 0
        wrap_bio("repair_heavy", self.repairs)
        wrap_bio("add_hydrogens", self.addhs)
        wrap_bio("remove_hydrogens", self.strips)

        orig_patch = biomolecule.Biomolecule.apply_patch

        def apply_patch(self_, patchname, res):
            mon.seq += 1
            ref = getattr(res, "reference", None)
            rec = {"res": res, "stage": "apply_patch", "patch": patchname, "seq": mon.seq, "before": names(res), "ref": list(ref.map.keys()) if ref is not None else None, "resname": res.name, "raised": None}
            try:
                return orig_patch(self_, patchname, res)
            except Exception as e:  # noqa: BLE001
                rec["raised"] = type(e).__name__
                raise
            finally:
                rec["after"] = names(res)
                rec["ref_after"] = list(res.reference.map.keys()) if getattr(res, "reference", None) is not None else None
                mon.patches.append(rec)

        biomolecule.Biomolecule.apply_patch = apply_patch
        self._undo.append(lambda: setattr(biomolecule.Biomolecule, "apply_patch", orig_patch))

        from pdb2pqr import main as pmain

        orig_gate = pmain.is_repairable
        mon.gate = None

        def gate(biomolecule_, has_ligand):
            counts = (biomolecule_.num_heavy, biomolecule_.num_missing_heavy)
            ret = orig_gate(biomolecule_, has_ligand)
            mon.gate = {"heavy": counts[0], "missing": counts[1], "ret": bool(ret)}
            return ret

        pmain.is_repairable = gate
        self._undo.append(lambda: setattr(pmain, "is_repairable", orig_gate))

        from pdb2pqr import aa as aa_

        orig_his = aa_.HIS.set_state
        mon.his = []

        def his_set_state(self_):
            rec = {"res": self_, "before": names(self_), "hip": ("HIP" in self_.patches) or self_.name in ("HIP", "HSP"), "raised": None}
            try:
                nd1, ne2 = self_.get_atom("ND1"), self_.get_atom("NE2")
                rec["flags"] = (bool(nd1.hdonor), bool(nd1.hacceptor), bool(ne2.hdonor), bool(ne2.hacceptor))
            except Exception:  # noqa: BLE001
                rec["flags"] = None
            try:
                return orig_his(self_)
            except Exception as e:  # noqa: BLE001
                rec["raised"] = type(e).__name__
                raise
            finally:
                rec["after"] = names(self_)
                rec["ffname"] = self_.ffname
                rec["n"], rec["c"] = bool(self_.is_n_term), bool(self_.is_c_term)
                mon.his.append(rec)

        aa_.HIS.set_state = his_set_state
        self._undo.append(lambda: setattr(aa_.HIS, "set_state", orig_his))

        orig_remove = residue.Residue.remove_atom

        def remove_atom(self_, atomname):
            mon.removed.append((self_, atomname, sys._getframe(1).f_code.co_name))
            return orig_remove(self_, atomname)

        residue.Residue.remove_atom = remove_atom
        self._undo.append(lambda: setattr(residue.Residue, "remove_atom", orig_remove))

        logger = biomolecule._LOGGER
        orig_warn = logger.warning

        def warning(msg, *a, **k):
            mon.warnings.append(str(msg))
            return orig_warn(msg, *a, **k)

        logger.warning = warning
        self._undo.append(lambda: delattr(logger, "warning"))
        return self

    def __exit__(self, *exc):
        for u in reversed(self._undo):
            u()
        self._undo = []
        return False


def encn(ns):
    return ",".join(hexs(n) for n in ns)


def decn(s):
    return [unhexs(x) for x in s.split(",")] if s else []


def b01(x):
    return "1" if x else "0"


def topology_tie(ctx: Ctx):
    """the translator's view of AA.xml / NA.xml / PATCHES.xml (gen/topology.py, from which Gen/Topology.lean and every
    kernel table over it are written) against the objects the real Definition builds — exhaustively: every
    effective residue definition (atoms in order, coordinates, bond lists in order, dihedrals) and every run-time
    patch (added atoms, removals, alternative names, dihedrals)"""
    import gen.topology as gentopo
    from pdb2pqr import io as pio

    real = pio.get_definitions()
    mine = gentopo.definitions()
    if list(real.map) != list(mine.map):
        ctx.disagree("Definition.map keys", {}, list(mine.map)[:8], list(real.map)[:8])
        return
    if list(real.patches) != list(mine.patches):
        ctx.disagree("Definition.patches keys", {}, list(mine.patches)[:8], list(real.patches)[:8])
        return

    def atoms_view(m, exact):
        return [(a.name, (float(a.x), float(a.y), float(a.z)), list(a.bonds)) for a in m.values()]

    for name in real.map:
        ctx.evaluations += 1
        r, t = real.map[name], mine.map[name]
        a, b = atoms_view(r.map, True), atoms_view(t.map, True)
        if a != b or list(r.dihedrals) != list(t.dihedrals):
            k = next((i for i, (x, y) in enumerate(zip(a, b)) if x != y), min(len(a), len(b)))
            ctx.disagree("effective residue definition (translator vs Definition)", {"residue": name}, str(b[k : k + 1] or t.dihedrals), str(a[k : k + 1] or r.dihedrals))
    for name in real.patches:
        ctx.evaluations += 1
        r, t = real.patches[name], mine.patches[name]
        if atoms_view(r.map, True) != atoms_view(t.map, True) or list(r.remove) != list(t.remove) or dict(r.altnames) != dict(t.altnames) or list(r.dihedrals) != list(t.dihedrals):
            ctx.disagree("run-time patch (translator vs Definition)", {"patch": name}, str((list(t.map), t.remove, t.altnames)), str((list(r.map), r.remove, r.altnames)))
    ctx.count("topology-objects-compared", "residue definitions", len(real.map))
    ctx.count("topology-objects-compared", "patches", len(real.patches))


LATE_PATCHES = ("CYX", "CYM", "ASH", "GLH", "LYN", "TYM", "AR0", "HID", "HIE", "HIP", "HSD", "HSE", "HSP")


def stages_tie(ctx: Ctx, drv: Driver, m: OptMonitor):
    """composition of the atom-set stages, residue by residue (Model/Stages.lean, theorems stages_*): the model
    is started from the residue's names and pristine reference at its first logged stage and run through the whole
    logged sequence on its OWN state; after every stage its names (as a multiset) and its reference's names must
    be those of the real residue. Between two logged stages the real residue must not have changed (frame)."""
    ev = {}
    for rec in m.patches + m.repairs + m.strips + m.addhs:
        ev.setdefault(id(rec["res"]), []).append(rec)
    reqs, metas = [], []
    for evs in ev.values():
        evs.sort(key=lambda r: r["seq"])
        first = evs[0]
        res = first["res"]
        if first["ref"] is None:
            continue
        # the definition the residue was created from is looked up under the residue name of the input
        refname = first.get("resname")
        toks, used = [], []
        seen_repair = False
        prev_after = None
        ok = True
        for rec in evs:
            if rec.get("raised"):
                break
            if prev_after is not None and rec["before"] != prev_after:
                ctx.disagree("residue atoms change between two modelled stages (frame)", {"residue": str(res), "next_stage": rec["stage"]}, prev_after, rec["before"])
                ok = False
                break
            prev_after = rec["after"]
            st = rec["stage"]
            if st == "apply_patch":
                if seen_repair and rec["patch"] not in LATE_PATCHES:
                    ctx.disagree("a patch outside the modelled late set is applied after repair_heavy", {"residue": str(res)}, list(LATE_PATCHES), rec["patch"])
                ctx.count("stage-patches", ("late:" if seen_repair else "early:") + rec["patch"])
                toks.append("P" + hexs(rec["patch"]))
            elif st == "repair_heavy":
                seen_repair = True
                if not rec["missing_total"]:
                    if rec["before"] != rec["after"]:
                        ok = False  # reported by trace_tie
                        break
                    continue  # returns at once: no stage
                toks.append("R")
            elif st == "remove_hydrogens":
                toks.append("S")
            elif st == "add_hydrogens":
                if rec["hlist"] is not None:
                    break
                toks.append("A1" if rec["ss"] else "A0")
            used.append(rec)
        if not ok or not toks or refname is None:
            continue
        reqs.append(f"stages.run\t{hexs(refname)}\t{encn(first['before'])}\t{';'.join(toks)}")
        metas.append((res, refname, first, used, toks))
    for (res, refname, first, used, toks), a in zip(metas, drv.ask(reqs)):
        ctx.evaluations += 1
        if a == "unknown-residue":
            ctx.count("stage-sequences", "reference not in the generated topology")
            continue
        if a.startswith("unknown-stage"):
            ctx.disagree("stage sequence uses a patch the generated topology does not have", {"residue": str(res)}, a, toks)
            continue
        ctx.count("stage-sequences", "replayed")
        ctx.count("stage-sequence-shape", " ".join(t[0] for t in toks))
        body, _, rep = a.partition("#")
        states = body.split(";") if body else []
        bad = False
        for rec, stt in zip(used, states):
            nm_s, _, ref_s = stt.partition("|")
            got, gref = decn(nm_s), decn(ref_s)
            if sorted(gref) != sorted(rec["ref_after"]):
                ctx.disagree(f"stage composition: reference after {rec['stage']} {rec.get('patch', '')}", {"residue": str(res), "reference": refname, "start": first["before"], "stages": toks}, gref, rec["ref_after"])
                bad = True
                break
            if sorted(got) != sorted(rec["after"]):
                lost = [n for n in got if n not in rec["after"]]
                if rec["stage"] == "add_hydrogens" and lost and all(n.startswith("H") for n in lost) and not [n for n in rec["after"] if n not in got]:
                    ctx.count("add_hydrogens-could-not-place", len(lost))
                else:
                    ctx.disagree(f"stage composition: names after {rec['stage']} {rec.get('patch', '')}", {"residue": str(res), "reference": refname, "start": first["before"], "stages": toks}, got, rec["after"])
                bad = True
                break
        if not bad:
            reported = " ".join(m.warnings)
            for n in decn(rep):
                if f"Extra atom {n} in" not in reported:
                    ctx.disagree("stage composition: deletion without report", {"residue": str(res)}, f"report for {n}", "none logged")


def his_tie(ctx: Ctx, drv: Driver, m: OptMonitor):
    """HIS.set_state: the atom it drops and the name it reads off the atoms vs the model (theorem his_state_clean)"""
    recs = [r for r in getattr(m, "his", []) if r["flags"] is not None]
    ans = drv.ask([f"atoms.his\t{encn(r['before'])}\t{b01(r['hip'])}\t" + "\t".join(b01(x) for x in r["flags"]) for r in recs])
    for r, a in zip(recs, ans):
        ctx.evaluations += 1
        nm_s, _, name_h = a.partition("|")
        got = decn(nm_s)
        both = "HD1" in r["before"] and "HE2" in r["before"]
        ctx.count("HIS.set_state", ("doubly protonated" if r["hip"] else "neutral") + (", both ring protons" if both else ", one ring proton" if ("HD1" in r["before"] or "HE2" in r["before"]) else ", no ring proton") + " flags=" + "".join(b01(x) for x in r["flags"]))
        if name_h == "TypeError":
            if r["raised"] is None:
                ctx.disagree("HIS.set_state (error)", {"before": r["before"]}, "TypeError", r["ffname"])
            continue
        if r["raised"] is not None:
            ctx.disagree("HIS.set_state (error)", {"before": r["before"]}, unhexs(name_h), r["raised"])
            continue
        if got != r["after"]:
            ctx.disagree("HIS.set_state (atoms)", {"before": r["before"], "hip": r["hip"], "flags": r["flags"]}, got, r["after"])
        base = r["ffname"] or ""
        for pre in ("NEUTRAL-N", "NEUTRAL-C", "N", "C"):
            if base.startswith(pre) and len(base) > len(pre) + 2 and ((pre.endswith("N") and r["n"]) or (pre.endswith("C") and r["c"])):
                base = base[len(pre) :]
                break
        if base != unhexs(name_h):
            ctx.disagree("HIS.set_state (state name)", {"before": r["before"], "after": r["after"]}, unhexs(name_h), r["ffname"])


def trace_tie(ctx: Ctx, drv: Driver, m: OptMonitor):
    """replay every logged call in the model"""
    stages_tie(ctx, drv, m)
    his_tie(ctx, drv, m)
    reqs = []
    recs = []
    for r in m.records:
        cls, me = r["cls"], r["method"]
        ctx.count("optimisation-calls", f"{cls}.{me}")
        if r.get("raised"):
            ctx.count("optimisation-calls-raised", f"{cls}.{me}:{r['raised']}")
            continue
        s = encn(r["before"])
        q = None
        if cls == "Flip":
            if me == "__init__":
                q = f"atoms.flipinit\t{s}\t{encn(r['arg'])}"
            elif me == "fix_flip":
                q = f"atoms.fixflip\t{s}\t{hexs(r['arg'])}"
                # the hypothesis of flip_clean: the bond atom is present and is a moved atom or its copy
                init = next((x for x in m.records if x["cls"] == "Flip" and x["method"] == "__init__" and x["obj"] is r["obj"]), None)
                mv = init["arg"] if init else []
                b = r["arg"]
                ok = b in r["before"] and (b in mv or (b.endswith("FLIP") and b[:-4] in mv))
                ctx.count("fix_flip-guard", "holds" if ok else "fails")
                if not ok:
                    ctx.disagree("fix_flip called outside the guard of flipStep", {"before": r["before"], "moved": mv}, "bond atom present and in the moved set or a copy", b)
            elif me == "finalize":
                q = f"atoms.flipfinalize\t{s}\t{b01(r['fixed'])}"
            elif me == "complete":
                q = f"atoms.flipcomplete\t{s}\t{b01(r['fixed'])}"
            else:
                # try_*: the only effect on the residue is that of a fix_flip child
                kids = [c for c in r["children"] if c["method"] == "fix_flip" and c["res"] is r["res"]]
                if not kids and r["before"] != r["after"]:
                    ctx.disagree(f"Flip.{me} without fix_flip changes the residue", {"before": r["before"]}, r["before"], r["after"])
                continue
        elif cls == "Alcoholic":
            h = hexs(r["arg"]) if r["arg"] else ""
            if me == "__init__":
                q = f"atoms.alcinit\t{s}\t{h}"
            elif me == "try_donor":
                q = f"atoms.alcdonor\t{s}\t{h}\t{b01(r['ret'])}"
            elif me == "try_acceptor":
                q = f"atoms.acceptor\t{s}\t{b01(r['ret'])}"
            elif me == "try_both":
                d = [c for c in r["children"] if c["method"] == "try_donor" and c["obj"] is r["obj"]]
                a = [c for c in r["children"] if c["method"] == "try_acceptor" and c["obj"] is r["accobj"]]
                if not d:
                    # shortcut through the partner only: this residue is touched only if the partner is in the same residue
                    continue
                okd = bool(d[0]["ret"])
                if a and a[0]["res"] is r["res"]:
                    continue  # donor and acceptor in one residue: the two children are checked on their own
                if not a and not okd:
                    q = f"atoms.alcdonor\t{s}\t{h}\t0"
                elif not a:
                    # the acceptor's residue is fixed: try_both is try_donor alone
                    q = f"atoms.alcdonor\t{s}\t{h}\t1"
                else:
                    q = f"atoms.alcboth\t{s}\t{h}\t{b01(okd)}\t{b01(bool(a[0]['ret']))}"
            elif me == "finalize":
                q = f"atoms.alcfinalize\t{s}\t{h}\t{b01(r['fixed'])}\t{r['b']}"
                if not r["fixed"] and r["arg"] not in r["before"]:
                    ctx.count("alcoholic-finalize-bond-count", r["b"])
            elif me == "complete":
                q = f"atoms.alccomplete\t{s}\t{h}\t{b01(r['fixed'])}\t{r['b']}"
        elif cls == "Water":
            if me == "__init__":
                if r["before"] != r["after"]:
                    ctx.disagree("Water.__init__ changes the residue", {}, r["before"], r["after"])
                continue
            if me == "try_donor":
                q = f"atoms.watdonor\t{s}\t{b01(r['ret'])}"
            elif me == "try_acceptor":
                q = f"atoms.acceptor\t{s}\t{b01(r['ret'])}"
            elif me == "try_both":
                d = [c for c in r["children"] if c["method"] == "try_donor" and c["obj"] is r["obj"]]
                a = [c for c in r["children"] if c["method"] == "try_acceptor" and c["obj"] is r["accobj"]]
                if not d or (a and a[0]["res"] is r["res"]):
                    continue
                if not a:
                    q = f"atoms.watdonor\t{s}\t{b01(bool(d[0]['ret']))}"
                else:
                    q = f"atoms.watboth\t{s}\t{b01(bool(d[0]['ret']))}\t{b01(bool(a[0]['ret']))}"
            elif me == "finalize":
                q = f"atoms.watfinalize\t{s}\t{b01(r['fixed'])}"
            elif me == "complete":
                q = f"atoms.watcomplete\t{s}\t{b01(r['fixed'])}"
        elif cls == "Carboxylic":
            info = m.carb.get(id(r["obj"]))
            if info is None or not info["p1"] or not info["p2"] or "c_after" not in r:
                continue
            tail = "\t".join(hexs(info[k]) for k in ("p1", "p2", "o1", "o2"))

            def st(names_, c):
                return ";".join([encn(names_), encn([n for _i, n in c[0]]), encn(c[1]), b01(c[2])])

            if me == "__init__":
                inv = {info["o1"]: info["p1"], info["o2"]: info["p2"]}
                order = [inv.get(o, "") for o in r["c_after"][1]]
                q = f"carb.init\t{s}\t{tail}\t{encn(order)}"
            else:
                cb, ca = r["c_before"], r["c_after"]
                ids_b, ids_a = [i for i, _n in cb[0]], [i for i, _n in ca[0]]
                name_b = dict(cb[0])
                state = st(r["before"], cb)
                if me == "try_acceptor":
                    if ids_b == ids_a and r["before"] == r["after"]:
                        continue  # no bond found
                    gone = [i for i in ids_b if i not in ids_a]
                    if len(gone) != 1 or gone[0] not in ids_b[:2]:
                        ctx.disagree("Carboxylic.try_acceptor eliminates something else than one of the first two candidates", {"before": cb[0]}, "first or second", str(gone))
                        continue
                    q = f"carb.acc\t{state}\t{b01(gone[0] == ids_b[0])}\t{tail}"
                elif me == "fix":
                    if len(ids_a) != 1 or ids_a[0] not in name_b:
                        continue
                    q = f"carb.fix\t{state}\t{hexs(name_b[ids_a[0]])}\t{tail}"
                elif me in ("finalize", "complete"):
                    best = hexs(name_b[ids_a[0]]) if ids_a and ids_a[0] in name_b and ids_b else "-"
                    # the coupling the theorems assume: finalize picks a candidate whenever one is alive
                    if ids_b and not ids_a and not (cb[2] and len(ids_b) != 2):
                        ctx.count("carboxylic-finalize", "no-best-although-candidates-alive")
                        ctx.disagree("Carboxylic.finalize found no lowest-energy candidate although candidates were alive", {"before": cb[0]}, "a candidate is kept", "all removed")
                    else:
                        ctx.count("carboxylic-finalize", "best-exists-or-nothing-to-do")
                    q = f"carb.{me}\t{state}\t{best}\t{tail}"
                else:
                    continue
            r["carb_expect"] = True
        else:
            continue
        if q:
            reqs.append(q)
            recs.append(r)
    for c in m.cleanup:
        if c["name"] == "GLH" or "GLH" in c["patches"]:
            reqs.append(f"atoms.cleanup\t{encn(c['before'])}\t{hexs('HE1')}\t{hexs('HE2')}")
            recs.append({"cls": "cleanup", "method": "GLH", "before": c["before"], "after": c["after"], "b": None})
        elif c["name"] == "ASH" or "ASH" in c["patches"]:
            reqs.append(f"atoms.cleanup\t{encn(c['before'])}\t{hexs('HD1')}\t{hexs('HD2')}")
            recs.append({"cls": "cleanup", "method": "ASH", "before": c["before"], "after": c["after"], "b": None})
        elif c["before"] != c["after"]:
            ctx.disagree("cleanup changes a residue that is neither GLH nor ASH", {"residue": c["name"]}, c["before"], c["after"])
    # repair_heavy / add_hydrogens, residue by residue
    rq, rr = [], []
    for c in m.repairs:
        if c["raised"] or not c["missing_total"]:
            # nothing missing anywhere: repair_heavy returns at once and deletes nothing
            if not c["raised"] and c["before"] != c["after"]:
                ctx.disagree("repair_heavy with nothing missing changes a residue", {}, c["before"], c["after"])
            continue
        rq.append(f"atoms.repair\t{encn(c['ref'])}\t{encn(c['before'])}")
        rr.append(("repair", c))
    for c in m.addhs:
        if c["raised"]:
            continue
        if c["hlist"] is not None:
            continue
        rq.append(f"atoms.addh\t{encn(c['ref'])}\t{encn(c['before'])}\t{b01(c['ss'])}")
        rr.append(("addh", c))
    for (kind, c), a in zip(rr, drv.ask(rq)):
        ctx.evaluations += 1
        ctx.count("residue-stage-replays", kind)
        if kind == "repair":
            res_s, rep_s = a.split("|")
            got, rep = decn(res_s), decn(rep_s)
            if sorted(got) != sorted(c["after"]):
                ctx.disagree("repair_heavy (names, as a multiset)", {"before": c["before"], "reference": c["ref"]}, got, c["after"])
            reported = " ".join(m.warnings)
            for n in rep:
                if f"Extra atom {n} in" not in reported:
                    ctx.disagree("repair_heavy deletes without reporting", {"before": c["before"]}, f"report for {n}", "none logged")
        else:
            got = decn(a)
            if got != c["after"]:
                lost = [n for n in got if n not in c["after"]]
                if lost and all(n.startswith("H") for n in lost) and not [n for n in c["after"] if n not in got]:
                    ctx.count("add_hydrogens-could-not-place", len(lost))  # 'Couldn't rebuild': ok(n) = false; the final oracle decides
                else:
                    ctx.disagree("add_hydrogens (names)", {"before": c["before"], "reference": c["ref"], "ss": c["ss"]}, got, c["after"])
    ans = drv.ask(reqs)
    for r, a in zip(recs, ans):
        ctx.evaluations += 1
        where = f"{r['cls']}.{r['method']}"
        if r["cls"] == "Water" and r["method"] == "finalize":
            nm, _fx, wb = a.split("|")
            if r["b"] is not None and int(wb) != r["b"] and not r.get("fixed") and "H2" not in r["before"]:
                ctx.disagree("Water.finalize: bond count of the oxygen vs names", {"before": r["before"]}, wb, r["b"])
            a = nm
        if r.get("carb_expect"):
            parts = a.split(";")
            if len(parts) != 4:
                ctx.disagree(where, {"before": r["before"]}, a, "state")
                continue
            got_state = (decn(parts[0]), decn(parts[1]), decn(parts[2]), parts[3] == "1")
            ca = r["c_after"]
            real_state = (r["after"], [n for _i, n in ca[0]], ca[1], ca[2])
            if got_state != real_state:
                ctx.disagree(where, {"before": r["before"], "c_before": str(r.get("c_before"))[:300]}, str(got_state)[:400], str(real_state)[:400])
            continue
        got = decn(a) if a != "KeyError" else "KeyError"
        if got != r["after"]:
            ctx.disagree(where, {"before": r["before"], "fixed": r.get("fixed"), "arg": r.get("arg"), "b": r.get("b"), "ret": str(r.get("ret"))}, got, r["after"])


def altloc_first(lines):
    """the records pdb2pqr keeps: first alternate location of each atom"""
    seen = set()
    out = []
    for l in lines:
        key = (l[21], l[22:27], l[12:16].strip())
        if key in seen:
            continue
        seen.add(key)
        out.append(l)
    return out


def oracle(ctx: Ctx, m: OptMonitor, text, opts, run):
    from pdb2pqr import aa, na
    from pdb2pqr import io as pio

    out = []
    bio = run.biomolecule
    adding = "--clean" not in opts and "--assign-only" not in opts
    missed_ids = {id(a) for a in (run.missed or [])}
    defn = oracle.defn if hasattr(oracle, "defn") else pio.get_definitions()
    oracle.defn = defn
    byres = {}
    for res in bio.residues:
        byres[(res.chain_id, res.res_seq, (res.ins_code or "").strip())] = res
        names = [a.name for a in res.atoms]
        pos = c04.position(res)
        dup = sorted({n for n in names if names.count(n) > 1})
        if dup:
            out.append(({"kind": "duplicate", "residue": res.name, "pos": pos, "atom": dup[0]}, f"{res} holds {dup} more than once"))
        tmp = [n for n in names if n.startswith("LP") or n.endswith("FLIP")]
        if tmp:
            out.append(({"kind": "leftover-temporary", "residue": res.name, "pos": pos, "atom": tmp[0]}, f"{res} still holds {tmp}"))
        # the two alternative protons of a protonated carboxyl group (HD1/HD2 of ASP/ASH, HE1/HE2 of GLU/GLH) are
        # placed together and one of them is a placeholder: a run that adds atoms ends with at most one of them
        # (Carboxylic.finalize / HydrogenRoutines.cleanup; theorems ash_clean, glh_clean, cleanup_spec)
        if adding and isinstance(res, aa.Amino):
            for resn, first, second in (("ASP", "HD1", "HD2"), ("ASH", "HD1", "HD2"), ("GLU", "HE1", "HE2"), ("GLH", "HE1", "HE2")):
                if res.name == resn and first in names and second in names:
                    out.append(({"kind": "leftover-temporary", "residue": res.name, "pos": pos, "atom": first}, f"{res} still holds both alternative carboxylic protons {first} and {second}"))
        ref = getattr(res, "reference", None)
        if not adding or ref is None or not isinstance(res, (aa.Amino, na.Nucleic, aa.WAT)):
            continue
        if any(id(a) in missed_ids for a in res.atoms):
            ctx.count("final-atom-set", "not-fully-parameterised")
            continue
        exp_ref = {n for n in ref.map if n not in PSEUDO}
        ff = getattr(res, "ffname", None)
        exp_def = {n for n in defn.map[ff].map if n not in PSEUDO} if ff in defn.map else None
        got = set(names)
        # a protonated carboxyl group is defined with both alternative protons; exactly one,
        # under its final name (HD2 / HE2), must remain
        for first, second in (("HD1", "HD2"), ("HE1", "HE2")):
            if first in exp_ref and second in exp_ref and first not in got:
                exp_ref = exp_ref - {first}
            if exp_def is not None and first in exp_def and second in exp_def and first not in got:
                exp_def = exp_def - {first}
        if got == exp_ref:
            ctx.count("final-atom-set", "= run-time reference")
        elif exp_def is not None and got == exp_def and pos != "NC":
            # (a one-residue chain is named after its N-terminal state only: its topology is the reference)
            ctx.count("final-atom-set", "= definition of the final state name")
        else:
            missing = sorted(exp_ref - got)
            extra = sorted(got - exp_ref)
            kind = "missing-atom" if missing else "extra-atom"
            atom = (missing or extra)[0]
            sig = {"kind": kind, "residue": res.name, "ffname": ff, "pos": pos, "atom": atom}
            # known finding: when more than a tenth of the heavy atoms are missing is_repairable logs an error and
            # returns False instead of raising; repair_heavy is skipped and the run goes on with the heavy atoms the
            # INPUT lacked (and the hydrogens that hang on them) still missing. Identified by: the gate refused this
            # structure as over the limit (counts taken by the harness), nothing extra, and every missing heavy atom
            # was already absent from the input residue.
            g = getattr(m, "gate", None)
            refused = g is not None and not g["ret"] and g["heavy"] > 0 and 10 * g["missing"] > g["heavy"]
            input_names = {l[12:16].strip() for l in text.splitlines() if l.startswith(("ATOM", "HETATM")) and l[21:22].strip() == (res.chain_id or "").strip() and l[22:26].strip() == str(res.res_seq) and l[26:27].strip() == (res.ins_code or "").strip()}
            heavy_missing = [n for n in missing if not n.startswith("H")]
            if refused and not extra and heavy_missing and all(n not in input_names for n in heavy_missing):
                sig = {"kind": "missing-atom", "cause": "repair-skipped"}
            out.append((sig, f"{res} ({ff}): missing {missing}, extra {extra} against its reference"))
    # (b) input heavy atoms
    recs = altloc_first([l for l in text.splitlines() if l.startswith(("ATOM", "HETATM"))])
    reported = " ".join(m.warnings)
    # the 5'-terminal phosphate of a strand "is the one group removed by design" (5TERM; theorem five_end_has_no_phosphate):
    # from the request, the first residue of each chain of the file when it is a nucleotide
    NUC_NAMES = {"A", "C", "G", "U", "T", "DA", "DC", "DG", "DT", "RA", "RC", "RG", "RU", "ADE", "CYT", "GUA", "THY", "URA"}
    first_of_chain = {}
    for l in recs:
        first_of_chain.setdefault(l[21], (l[22:27], l[17:20].strip()))
    for l in recs:
        name = l[12:16].strip()
        if adding and name in ("P", "O1P", "O2P", "OP1", "OP2") and first_of_chain.get(l[21]) == (l[22:27], l[17:20].strip()) and l[17:20].strip() in NUC_NAMES:
            key5 = (l[21].strip() if l[21] != " " else "", int(l[22:26]), l[26].strip())
            r5 = byres.get(key5) or byres.get((l[21], int(l[22:26]), l[26].strip()))
            if r5 is not None:
                gone = not any(a.name in (name, {"OP1": "O1P", "OP2": "O2P"}.get(name, name)) for a in r5.atoms)
                ctx.count("input-heavy-atoms", "5'-phosphate removed by design" if gone else "5'-phosphate kept")
                if gone:
                    continue
        elem = l[76:78].strip() if len(l) >= 78 else ""
        if name.startswith("H") or elem == "H" or (name[:1].isdigit() and name[1:2] == "H"):
            continue
        if "--drop-water" in opts and l[17:20] in ("HOH", "WAT"):
            continue
        key = (l[21].strip() if l[21] != " " else "", int(l[22:26]), l[26].strip())
        res = byres.get(key) or byres.get((l[21], int(l[22:26]), l[26].strip()))
        if res is None:
            out.append(({"kind": "lost-residue", "residue": l[17:20].strip()}, f"input residue {l[17:27]} is not in the final model"))
            continue
        ref = getattr(res, "reference", None)
        if ref is None:
            canon = name
        else:
            canon = ref.altnames.get(name, name) if hasattr(ref, "altnames") else name
        have = [a for a in res.atoms if a.name == canon or a.name == name]
        ctx.count("input-heavy-atoms", "kept" if len(have) == 1 else "gone" if not have else "doubled")
        if len(have) == 1:
            continue
        if not have:
            was_reported = f"Extra atom {name} in" in reported or f"Extra atom {canon} in" in reported
            if was_reported and adding:
                ctx.count("input-heavy-atoms", "deleted-and-reported")
                continue
            # relabelled by design (carboxylic O-swap keeps both names; patches rename through altnames)
            out.append(({"kind": "lost-heavy", "residue": res.name, "pos": c04.position(res), "atom": name}, f"{res}: input atom {name} is not in the final model and no deletion was reported"))
    # (c) found ∪ missing = all; PQR = found
    all_ids = {id(a) for r in bio.residues for a in r.atoms}
    stray = [a for a in (run.missed or []) if id(a) not in all_ids]
    if stray:
        out.append(({"kind": "reported-atom-not-in-model"}, f"{len(stray)} reported atoms are not atoms of the final model"))
    if run.pqr is not None and "--ligand" not in " ".join(opts):
        lines = [l for l in run.pqr.splitlines() if l.startswith(("ATOM", "HETATM"))]
        found = sum(1 for r in bio.residues for a in r.atoms if id(a) not in missed_ids)
        if len(lines) != found:
            out.append(({"kind": "unreported", "written": "fewer" if len(lines) < found else "more"}, f"{found} atoms have parameters but the PQR has {len(lines)} atom lines ({len(missed_ids)} reported missing)"))
    return out


def with_insertion_code(rng, text):
    """renumber one residue as <previous number> + insertion code A (52, 52A)"""
    lines = text.splitlines()
    groups = []
    for i, l in enumerate(lines):
        if l.startswith("ATOM"):
            key = l[21:27]
            if not groups or groups[-1][0] != key:
                groups.append((key, []))
            groups[-1][1].append(i)
    cands = [k for k in range(1, len(groups)) if groups[k][0][0] == groups[k - 1][0][0] and groups[k - 1][0][5] == " "]
    if not cands:
        return text, False
    k = rng.choice(cands)
    prev = groups[k - 1][0]
    for i in groups[k][1]:
        lines[i] = lines[i][:22] + prev[1:5] + "A" + lines[i][27:]
    return "\n".join(lines) + "\n", True


def gen_case(rng, force=None):
    if rng.random() < 0.5:
        text, opts, feats = c04.gen_case(rng, force)
    else:
        text, ff, opts, f = c01.gen_case(rng)
        opts = [o for o in opts if o not in ("--whitespace", "--keep-chain")]
        feats = {"kind": "c01:" + ",".join(sorted(x for x in f if not x.startswith("state:")))[:40], "mode": "states" if any(x.startswith("state:") for x in f) else "default", "target": "any", "pos": "?"}
    # an unknown extra heavy atom in a recognised residue: must be deleted AND reported
    if rng.random() < 0.2 and "hydrogenated" not in feats["kind"]:
        lines = text.splitlines()
        idx = [i for i, l in enumerate(lines) if l.startswith("ATOM") and l[12:16].strip() == "CA"]
        if idx:
            i = rng.choice(idx)
            l = lines[i]
            x = float(l[30:38]) + 1.1
            lines.insert(i + 1, l[:12] + " XE " + l[16:30] + f"{x:8.3f}" + l[38:])
            text = "\n".join(lines) + "\n"
            feats["kind"] += "+extra-atom"
    if rng.random() < 0.35 and "hydrogenated" not in feats["kind"]:
        from props.c05 import with_waters

        text = with_waters(rng, text)
        feats["kind"] += "+waters"
    if rng.random() < 0.1:
        opts.append("--drop-water")
    if rng.random() < 0.15 and "hydrogenated" not in feats["kind"] and not feats["kind"].startswith("ss"):
        text, done = with_insertion_code(rng, text)
        if done:
            feats["kind"] += "+icode"
    return text, opts, feats


def check_case(ctx: Ctx, drv: Driver, text, opts, feats, seen_sig):
    with OptMonitor() as m:
        r = G.run_pipeline(text, opts)
    ctx.evaluations += 1
    ctx.count("status", r.status)
    ctx.count("case-kind", feats["kind"])
    ctx.count("mode", feats["mode"])
    ctx.distinct.add((feats["kind"], feats["mode"], feats["target"], feats["pos"]))
    trace_tie(ctx, drv, m)
    if r.status != "ok":
        return
    found = oracle(ctx, m, text, opts, r)
    ctx.count("oracle", "holds" if not found else found[0][0]["kind"])
    for sig, msg in found:
        k = tuple(sorted(sig.items()))
        if k not in seen_sig:
            seen_sig.add(k)
            ctx.violate(sig, msg, {"pdb": text, "options": opts})


def big_case(ctx: Ctx, seen_sig):
    """one structure with more than 9 999 atoms and waters at the end (tests/data/1AFS.pdb): output serial
    numbers reach five digits, where fixed-column records have no blank between HETATM and the serial"""
    p = G.DATA / "1AFS.pdb"
    if not p.exists():
        ctx.count("big-structure", "1AFS.pdb not available")
        return
    text = p.read_text()
    for opts in (["--ff=AMBER", "--nodebump", "--noopt", "--whitespace"], ["--ff=PARSE", "--nodebump", "--noopt", "--keep-chain"]):
        r = G.run_pipeline(text, opts)
        ctx.evaluations += 1
        ctx.count("big-structure", r.status)
        ctx.distinct.add(("big", tuple(opts[3:])))
        if r.status != "ok":
            continue
        missed = {id(a) for a in (r.missed or [])}
        found = sum(1 for res in r.biomolecule.residues for a in res.atoms if id(a) not in missed)
        lines = [l for l in (r.pqr or "").splitlines() if l.startswith(("ATOM", "HETATM"))]
        ctx.count("big-structure-atoms", "10000+" if found >= 10000 else "<10000")
        if len(lines) != found:
            sig = {"kind": "unreported", "written": "fewer" if len(lines) < found else "more", "size": "10000+"}
            k = tuple(sorted(sig.items()))
            if k not in seen_sig:
                seen_sig.add(k)
                ctx.violate(sig, f"1AFS {opts}: {found} atoms have parameters but the PQR has {len(lines)} atom lines ({len(missed)} reported missing)", {"pdb": text, "options": opts})


def run(ctx: Ctx):
    G.quiet()
    rng = ctx.rng
    drv = Driver()
    ctx.extra["rule"] = (
        "one structure with more than 9 999 atoms (1AFS, --whitespace / --keep-chain); pre-named ASH/GLH residues with waters nearby (Carboxylic objects); the C04 case stream (every residue type forced at every chain position, packed waters, missing side-chain atoms, disulfide pairs, option modes incl. PROPKA states, --assign-only / --clean on hydrogenated input) and the C01 stream "
        "(pre-named protonation states, two chains, neutral termini), plus free waters, an unknown extra atom, --drop-water; every logged method call of the optimisation objects is an evaluation; a case is (kind, mode, target, position)"
    )
    seen_sig = set()
    topology_tie(ctx)
    big_case(ctx, seen_sig)
    # protonated carboxyl groups (pre-named ASH / GLH) with waters nearby: the Carboxylic objects
    for ci in range(ctx.scale(10, 300)):
        must = rng.choice(["ASP", "GLU"])
        _f, res = G.window(rng, rng.choice([3, 4, 6]), must_have=must)
        G.set_chain(res, "A", 1)
        for r in res:
            if r[0].resn in ("ASP", "GLU") and rng.random() < 0.8:
                for a in r:
                    a.resn = {"ASP": "ASH", "GLU": "GLH"}[a.resn]
        c = G.centroid(res)
        waters = [G.water(rng, "A", 900 + i, c, 6.0) for i in range(rng.randint(0, 4))]
        check_case(ctx, drv, G.to_pdb([res], waters), ["--ff=" + rng.choice(["AMBER", "PARSE", "CHARMM", "SWANSON"])], {"kind": "protonated-carboxyl", "mode": "default", "target": must, "pos": "?"}, seen_sig)
    # protonated carboxyl groups whose two C-O bonds differ (either direction, borderline, symmetric): an asymmetric
    # group makes Carboxylic optimise ONE oxygen only (the one-proton construction orders of ash_clean / glh_clean:
    # rename of the surviving proton, removal of the stale template proton, O-swap) - deposited carboxylates are symmetric
    from props.c05 import gen_carboxyl_case

    for ci in range(ctx.scale(12, 240)):
        text, opts, feats = gen_carboxyl_case(rng, ci)[:3]
        check_case(ctx, drv, text, opts, {"kind": "asymmetric-" + feats["kind"], "mode": feats["mode"], "target": feats["target"], "pos": feats["pos"]}, seen_sig)
    # the same groups protonated by the pKa route (ASH / GLH applied as patches at low pH), with and without the
    # optimisation that normally resolves the two alternative protons: without it only cleanup() does
    for ci in range(ctx.scale(6, 150)):
        must = rng.choice(["ASP", "GLU"])
        _f, res = G.window(rng, rng.choice([3, 4, 5]), must_have=must)
        G.set_chain(res, "A", 1)
        c = G.centroid(res)
        waters = [G.water(rng, "A", 900 + i, c, 6.0) for i in range(rng.randint(0, 2))]
        mode = [[], ["--noopt"], ["--nodebump", "--noopt"], ["--nodebump"]][ci % 4]
        opts = ["--ff=" + rng.choice(["AMBER", "PARSE", "CHARMM", "SWANSON"]), "--titration-state-method=propka", f"--with-ph={rng.choice([0.5, 1.0, 2.0, 3.5])}"] + mode
        check_case(ctx, drv, G.to_pdb([res], waters), opts, {"kind": "carboxyl-protonated-by-pH", "mode": " ".join(mode) or "default", "target": must, "pos": "?"}, seen_sig)
    # waters that come with hydrogens of their own: both, the first only, the second only (the excluded point of
    # water_clean: the run must then fail loudly or end with a complete water), hydrogen listed before the oxygen
    for ci in range(ctx.scale(4, 60)):
        _f, res = G.window(rng, rng.choice([2, 3]))
        G.set_chain(res, "A", 1)
        c = G.centroid(res)
        body = G.to_pdb([res], end=False)
        pos = {"O": (0.0, 0.0, 0.0), "H1": (0.96, 0.0, 0.0), "H2": (-0.24, 0.93, 0.0)}
        lines = []
        for wi in range(rng.randint(1, 3)):
            given = [["O", "H1", "H2"], ["O", "H1"], ["O", "H2"], ["H1", "O"], ["O"]][(ci + wi) % 5]
            o = [c[k] + rng.uniform(4.0, 8.0) * rng.choice([-1, 1]) for k in range(3)]
            for n in given:
                p3 = [o[k] + pos[n][k] for k in range(3)]
                lines.append(f"HETATM{900 + len(lines):5d}  {n:<3s} HOH A{900 + wi:4d}    {p3[0]:8.3f}{p3[1]:8.3f}{p3[2]:8.3f}  1.00 20.00           {n[0]}")
        text = body + "\n".join(lines) + "\nEND\n"
        check_case(ctx, drv, text, ["--ff=" + rng.choice(["AMBER", "PARSE", "CHARMM"])] + rng.choice([[], ["--noopt"], ["--nodebump", "--noopt"]]), {"kind": "waters-with-own-hydrogens", "mode": "default", "target": "HOH", "pos": "?"}, seen_sig)
    # fully hydrogenated inputs re-run in a state whose patch REMOVES hydrogens the input carries
    # (neutral N-terminus: H3; the patches' remove lists act on the residue, not only on the reference)
    for ci in range(ctx.scale(6, 120)):
        _f, res = G.window(rng, rng.choice([2, 3, 5]))
        G.set_chain(res, "A", 1)
        pre = G.run_pipeline(G.to_pdb([res]), ["--ff=AMBER", "--pdb-output=@DIR@/out.pdb"])
        hyd = pre.extra_files.get("out.pdb") if pre.status == "ok" else None
        if not hyd:
            ctx.count("hydrogenated-rerun", "pre-run failed")
            continue
        term = [["--neutraln"], ["--neutralc"], ["--neutraln", "--neutralc"]][ci % 3]
        mode = [[], ["--noopt"], ["--nodebump"]][(ci // 3) % 3]
        check_case(ctx, drv, hyd, ["--ff=PARSE"] + term + mode, {"kind": "hydrogenated-rerun", "mode": " ".join(term + mode), "target": res[0][0].resn, "pos": "N"}, seen_sig)
    # nucleic-acid strands synthesised from the NA.xml templates (DNA, RNA under full and one-letter residue names, with
    # waters / a peptide chain), with and without --drop-water: the 5'-terminal phosphate is the one group removed by design
    for rep in range(ctx.scale(1, 10)):
        for ci, (text, ff, opts, feats, strands) in enumerate(c01.nucleic_requests(rng)):
            o = [f"--ff={ff}"] + (["--drop-water"] if (ci + rep) % 2 == 1 else []) + [[], ["--noopt"], ["--nodebump"]][(ci // 2 + rep) % 3]
            if "nucleic+waters" not in feats and (ci + rep) % 2 == 1:
                from props.c05 import with_waters

                text = with_waters(rng, text)
            check_case(ctx, drv, text, o, {"kind": "nucleic:" + ",".join(sorted(f.split(":")[-1] for f in feats)), "mode": " ".join(o[1:]) or "default", "target": "strand", "pos": "?"}, seen_sig)
    n = ctx.scale(70, 2500)
    for ci in range(n):
        force = G.AA3[ci % len(G.AA3)] if ci % 2 == 0 else None
        text, opts, feats = gen_case(rng, force)
        check_case(ctx, drv, text, opts, feats, seen_sig)
        if ci < 2:
            ctx.sample({"options": opts, "features": feats, "pdb_head": text.splitlines()[:3]})


def replay(ctx: Ctx, data: dict) -> bool:
    G.quiet()
    rp = data.get("replay", data)
    with OptMonitor() as m:
        r = G.run_pipeline(rp["pdb"], rp["options"])
    if r.status != "ok":
        print("run status", r.status)
        return False
    found = oracle(ctx, m, rp["pdb"], rp["options"], r)
    for sig, msg in found:
        print(sig, msg)
    return bool(found)
