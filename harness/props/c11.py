"""C11 — runs are deterministic and independent of process history.

Tie: the model is the inventory regenerated from the AST of every module (gen/modulestate.py ->
Gen/ModuleState.lean), validated dynamically: a deep structural fingerprint of every pdb2pqr module
global, class attribute and function default before and after runs — anything that changed must be
in the generated write set. Oracle: A-B-A and A-fail-A histories in one process, and the same
runs in fresh processes under several PYTHONHASHSEED values; PQR bytes compared."""

from __future__ import annotations

import hashlib
import os
import subprocess
import sys
import tempfile
import types

import gen_struct as G
from core import REPO, Ctx
from props import c01, c16

import gen.modulestate as genmodulestate

GENERATORS = (genmodulestate.generate,)
TRUSTED_BASE = [
    "Lean 4.33.0 kernel; the C11 theorems use no axioms at all",
    "translator gen/modulestate.py (AST inventory of long-lived mutable objects, their mutation sites, set iteration, id/hash), regenerated every run",
    "state held by third-party modules (propka, numpy, logging) and mutation through aliases created at run time are invisible to the AST: covered only by the dynamic fingerprint and the histories actually run",
]
ASSUMPTIONS = ["runs issued through main_driver / run_pdb2pqr in one process", "hash seeds 0, 1, 2 and random"]


def fp(obj, depth=0, seen=None):
    """structural fingerprint without addresses"""
    seen = seen if seen is not None else set()
    if depth > 6:
        return "…"
    if isinstance(obj, (str, int, float, bool, bytes, type(None))):
        return repr(obj)
    if id(obj) in seen:
        return "<cycle>"
    if isinstance(obj, dict):
        seen.add(id(obj))
        return "{" + ",".join(sorted(f"{fp(k, depth + 1, seen)}:{fp(v, depth + 1, seen)}" for k, v in list(obj.items())[:2000])) + "}"
    if isinstance(obj, (list, tuple)):
        seen.add(id(obj))
        return "[" + ",".join(fp(v, depth + 1, seen) for v in list(obj)[:2000]) + "]"
    if isinstance(obj, (set, frozenset)):
        seen.add(id(obj))
        return "s{" + ",".join(sorted(fp(v, depth + 1, seen) for v in list(obj)[:2000])) + "}"
    return f"<{type(obj).__module__}.{type(obj).__name__}>"


def snapshot():
    out = {}
    for name, mod in list(sys.modules.items()):
        if not (name == "pdb2pqr" or name.startswith("pdb2pqr.")) or mod is None:
            continue
        for k, v in list(vars(mod).items()):
            if k.startswith("__"):
                continue
            if isinstance(v, types.ModuleType):
                continue
            if isinstance(v, type):
                if getattr(v, "__module__", "") != name:
                    continue
                for ck, cv in list(vars(v).items()):
                    if ck.startswith("__") or callable(cv) or isinstance(cv, (property, classmethod, staticmethod)):
                        continue
                    out[f"{name}.{k}.{ck}"] = fp(cv)
                for ck, cv in list(vars(v).items()):
                    f = cv.__func__ if isinstance(cv, (classmethod, staticmethod)) else cv
                    if isinstance(f, types.FunctionType):
                        out[f"{name}.{k}.{ck}(defaults)"] = fp((f.__defaults__, f.__kwdefaults__))
            elif isinstance(v, types.FunctionType):
                if getattr(v, "__module__", "") == name:
                    out[f"{name}.{k}(defaults)"] = fp((v.__defaults__, v.__kwdefaults__))
            else:
                out[f"{name}.{k}"] = fp(v)
    return out


def gen_inputs(rng):
    """a few (text, options, extra) run descriptions, one of them failing"""
    runs = []
    for _ in range(3):
        text, ff, opts, _feats = c01.gen_case(rng)
        runs.append((text, opts, None))
    # a ligand complex (mol2 perception uses sets)
    text, mol2, _lr, _ln, _f = c16.gen_complex(rng)
    runs.append((text, ["--ff=AMBER", "--whitespace", "--ligand=@DIR@/lig.mol2"], {"lig.mol2": mol2}))
    # the same force field with and without a user-supplied names file (which drops the water mapping)
    import re as _re

    names_txt = (REPO / "pdb2pqr" / "dat" / "AMBER.names").read_text()
    nowat = _re.sub(r"<residue>\s*<name>WAT</name>.*?</residue>", "", names_txt, count=1, flags=_re.S)
    _fw, resw = G.window(rng, 3)
    G.set_chain(resw, "A", 1)
    cw = G.centroid(resw)
    wtext = G.to_pdb([resw], [G.water(rng, "A", 900 + i, cw, 9.0) for i in range(2)])
    runs.insert(0, (wtext, ["--ff=AMBER", "--nodebump", "--noopt"], None))
    runs.insert(1, (wtext, ["--ff=AMBER", "--nodebump", "--noopt", "--usernames=@DIR@/nowat.names"], {"nowat.names": nowat}))
    # a PROPKA-driven run that carries PROPKA options pdb2pqr resets before use ("ignored" options: a chain
    # selection, --keep-protons): two chains with acidic groups at a pH that protonates them
    _fa, ra = G.window(rng, 3, must_have=rng.choice(["ASP", "GLU"]))
    _fb, rb = G.window(rng, 3, must_have=rng.choice(["ASP", "GLU", "HIS"]))
    G.set_chain(ra, "A", 1)
    G.set_chain(rb, "B", 101)
    for r in rb:
        for a in r:
            a.x += 40.0
    ptext = G.to_pdb([ra, rb])
    runs.append((ptext, ["--ff=PARSE", "--titration-state-method=propka", f"--with-ph={rng.choice([1.5, 2.5, 3.5])}", "--chain=A"] + (["--keep-protons"] if rng.random() < 0.5 else []), None))
    _f, res = G.window(rng, 3)
    G.set_chain(res, "A", 1)
    good = G.to_pdb([res])
    fails = [
        (good, ["--ff=AMBER", "--neutraln"], None),
        ("garbage\n", ["--ff=AMBER"], None),
        ("\n".join(l for l in good.splitlines() if l[12:16].strip() in ("N", "C", "O")) + "\n", ["--ff=AMBER"], None),
    ]
    return runs, fails


def do_run(r):
    text, opts, extra = r
    res = G.run_pipeline(text, opts, extra_inputs=extra)
    return res.status, res.pqr


def histories(ctx: Ctx, n):
    rng = ctx.rng
    allowed_writes = {c for c, _f in genmodulestate.analyse()[1]}
    seen = set()
    for hi in range(n):
        runs, fails = gen_inputs(rng)
        base = [do_run(r) for r in runs]
        ctx.evaluations += len(runs)
        # histories: every run again after other runs / after failures
        plan = [([("ok", 0)], 1), ([("ok", 1)], 0)]  # same force field, different --usernames, either order
        for k in range(len(runs)):
            others = [j for j in range(len(runs)) if j != k]
            plan.append(([("ok", rng.choice(others))], k))
            plan.append(([("fail", rng.randrange(len(fails)))], k))
            plan.append(([("ok", rng.choice(others)), ("fail", rng.randrange(len(fails))), ("ok", rng.choice(others))], k))
        before = snapshot()
        for prefix, k in plan:
            for kind, j in prefix:
                do_run(runs[j] if kind == "ok" else fails[j])
                ctx.evaluations += 1
            again = do_run(runs[k])
            ctx.evaluations += 1
            shape = "-".join(x for x, _ in prefix)
            ctx.distinct.add(("history", shape, tuple(o.split("=")[0] for o in runs[k][1])))
            ctx.count("histories", shape)
            if again != base[k]:
                sig = {"kind": "history-dependent", "history": shape}
                if tuple(sig.items()) not in seen:
                    seen.add(tuple(sig.items()))
                    ctx.violate(sig, f"run {k} gives different PQR bytes / status after the history [{shape}] ({base[k][0]} vs {again[0]})", {"runs": [list(r[:2]) for r in runs], "fails": [list(f[:2]) for f in fails], "prefix": prefix, "k": k})
        after = snapshot()
        changed = sorted(k for k in after if before.get(k) != after[k]) + sorted(k for k in before if k not in after)
        benign = ("warn_count",)
        unexpected = [c for c in changed if not any(c.replace(".__init__", "") == a.replace(".__init__", "") for a in allowed_writes) and not c.endswith(benign)]
        ctx.count("fingerprint", "cells-compared", len(after))
        if unexpected:
            ctx.disagree("module-state inventory (AST) vs dynamic fingerprint", {"changed": unexpected[:10]}, f"write set {sorted(allowed_writes)}", f"changed during runs: {unexpected[:10]}")
        if hi == 0:
            ctx.sample({"runs": [r[1] for r in runs], "plan": [[p for p in pre] for pre, _k in plan][:4], "cells_fingerprinted": len(after)})


def ligand_histories(ctx: Ctx, n):
    """the ligand stage under EVERY force field as the history of a ligand run: run A = (complex, ff_a, --ligand) alone,
    then after one run of the same complex under each other force field; module-state fingerprint around it"""
    rng = ctx.rng
    ffs = ["AMBER", "PARSE", "CHARMM", "TYL06", "SWANSON", "PEOEPB"]
    allowed_writes = {c for c, _f in genmodulestate.analyse()[1]}
    for hi in range(n):
        text, mol2, _lr, _ln, _f = c16.gen_complex(rng)
        a = ffs[(hi + ctx.seed) % len(ffs)]
        mk = lambda ff: (text, [f"--ff={ff}", "--whitespace", "--ligand=@DIR@/lig.mol2"], {"lig.mol2": mol2})
        before = snapshot()
        base = do_run(mk(a))
        ctx.evaluations += 1
        for g in ffs:
            if g == a:
                continue
            do_run(mk(g))
            again = do_run(mk(a))
            ctx.evaluations += 2
            ctx.count("ligand-histories", f"{g} then {a}")
            ctx.distinct.add(("ligand-history", g, a))
            if again != base:
                ctx.violate({"kind": "history-dependent", "history": "ok(ligand run under another force field)", "prefix_ff": g}, f"--ff={a} --ligand gives different PQR bytes / status after a --ff={g} --ligand run in the same process ({base[0]} vs {again[0]})",
                            {"runs": [list(mk(g)[:2]), list(mk(a)[:2])], "mol2": mol2, "prefix": [["ok", 0]], "k": 1})
                break
        after = snapshot()
        changed = sorted(k for k in after if before.get(k) != after[k]) + sorted(k for k in before if k not in after)
        unexpected = [c for c in changed if not any(c.replace(".__init__", "") == w.replace(".__init__", "") for w in allowed_writes) and not c.endswith(("warn_count",))]
        if unexpected:
            ctx.disagree("module-state inventory (AST) vs dynamic fingerprint (ligand runs)", {"changed": unexpected[:10]}, f"write set {sorted(allowed_writes)}", f"changed during runs: {unexpected[:10]}")


SCRIPT = r"""
import sys, logging
from pdb2pqr.main import build_main_parser, main_driver
logging.disable(logging.CRITICAL)
args = build_main_parser().parse_args(sys.argv[1:])
try:
    main_driver(args)
except Exception as e:
    print("EXC", type(e).__name__)
"""


def multi_model_cif(rng):
    """a complete peptide as a multi-model mmCIF entry (models distinguishable by their coordinates,
    model numbers not necessarily 1..n)"""
    from props import c10

    _f, res = G.window(rng, rng.choice([3, 4, 5]))
    G.set_chain(res, "A", 1)
    nm = rng.choice([2, 3, 3, 4])
    nums = rng.choice([list(range(1, nm + 1)), list(range(9, 9 + nm)), [3, 12, 100, 7][:nm]])
    atoms = []
    serial = 1
    for k, m in enumerate(nums):
        for r in res:
            for a in r:
                atoms.append({"het": False, "name": a.name, "resn": a.resn, "chain": "A", "resseq": a.resseq, "xs": f"{a.x + 0.05 * k:.3f}", "ys": f"{a.y:.3f}", "zs": f"{a.z:.3f}",
                              "occ": "1.00", "b": "20.00", "element": a.elem or a.name[0], "alt": "", "ins": "", "charge": "", "model": m, "serial": serial})
                serial += 1
    return c10.write_cif(atoms, False)


def hash_seeds(ctx: Ctx, n):
    rng = ctx.rng
    seen = set()
    for ci in range(n):
        runs, _fails = gen_inputs(rng)
        # ligand complex / the run with a user-supplied names file (after the plain run of the same force field
        # was made in this process) / multi-model mmCIF
        r = runs[-2] if ci % 3 == 0 else runs[1] if ci % 6 != 1 else runs[-1]
        text, opts, extra = r
        inname = "in.pdb"
        if ci % 3 == 2:
            cif = multi_model_cif(rng)
            if cif is not None:
                text, opts, extra, inname = cif, ["--ff=AMBER", "--nodebump", "--noopt"], None, "in.cif"
        d = tempfile.mkdtemp(prefix="c11_")
        try:
            open(os.path.join(d, inname), "w").write(text)
            for k, v in (extra or {}).items():
                open(os.path.join(d, k), "w").write(v)
            outs = {}
            for seed in ("0", "1", "2", "random") if inname == "in.pdb" else ("0", "1", "2", "3", "4", "5", "random"):
                out = os.path.join(d, f"out_{seed}.pqr")
                env = dict(os.environ, PYTHONHASHSEED=seed, PYTHONPATH=str(REPO))
                p = subprocess.run([sys.executable, "-c", SCRIPT, *[o.replace("@DIR@", d) for o in opts], "--log-level=CRITICAL", os.path.join(d, inname), out], capture_output=True, text=True, env=env, timeout=300)
                outs[seed] = (open(out).read() if os.path.exists(out) else None, p.stdout.strip()[-40:])
                ctx.evaluations += 1
            ctx.distinct.add(("hash-seed", tuple(o.split("=")[0] for o in opts)))
            ctx.count("hash-seed-outcome", ("cif:" if inname == "in.cif" else "pdb:") + ("written" if outs["0"][0] else "failed:" + outs["0"][1][-30:]))
            ctx.count("hash-seed-runs", "ligand" if extra else "multi-model-cif" if inname == "in.cif" else "plain")
            if len({v for v in outs.values()}) != 1:
                sig = {"kind": "hash-seed-dependent", "ligand": bool(extra)}
                if tuple(sig.items()) not in seen:
                    seen.add(tuple(sig.items()))
                    ctx.violate(sig, "PQR bytes differ between fresh processes with different PYTHONHASHSEED", {"pdb": text, "options": opts, "extra": extra})
            # and the in-process result equals the fresh-process result
            st, pqr = do_run(r) if inname == "in.pdb" else (None, G.run_pipeline(text, opts, suffix=".cif").pqr)
            if pqr != outs["0"][0]:
                sig = {"kind": "process-dependent", "ligand": bool(extra)}
                if tuple(sig.items()) not in seen:
                    seen.add(tuple(sig.items()))
                    ctx.violate(sig, "PQR bytes differ between the harness process (after many runs) and a fresh process", {"pdb": text, "options": opts, "extra": extra})
        finally:
            for fn in os.listdir(d):
                os.unlink(os.path.join(d, fn))
            os.rmdir(d)


def run(ctx: Ctx):
    G.quiet()
    ctx.extra["rule"] = (
        "per round: four runs (three generated peptide cases with random force field/options and a peptide+ligand+hetero complex) and three failing runs; every run repeated after [ok], [fail] and [ok, fail, ok] prefixes; "
        "ligand complexes: the same --ligand run alone and after a --ligand run under each of the other five force fields; module-state fingerprint before/after each round; the same run in fresh processes under PYTHONHASHSEED 0/1/2/random; a case is (history shape, option names); distinct counts distinct tuples"
    )
    histories(ctx, ctx.scale(2, 40))
    ligand_histories(ctx, ctx.scale(2, 36))
    hash_seeds(ctx, ctx.scale(6, 90))


def replay(ctx: Ctx, data: dict) -> bool:
    print("replay: re-run ./check C11 with the same VERIF_SEED; the replay file lists the runs of the failing history")
    return True
