"""C16 — ligand charges conserve formal charge and stay on the ligand.

Tie: real Mol2Molecule.read + assign_parameters (formal charges, PEOE equilibration, radii) vs the
Lean model P2P.Model.Peoe run in Float with the regenerated tables; the parameter transfer of
main.non_trivial vs `ligandTransfer`. Oracle: conservation, name independence, order dependence at
most by permutation, positive radii; in complexes: ligand parameters on ligand atoms only, each
ligand atom written exactly once."""

from __future__ import annotations

import io
import math
import random
import string

import gen_struct as G
from core import REPO, Ctx, hexs
from props.c17 import unbits

import gen.ligand as genligand

GENERATORS = (genligand.generate,)
TRUSTED_BASE = [
    "Lean 4.33.0 kernel; axioms ⊆ {propext, Classical.choice, Quot.sound}",
    "hand-written model lean/P2P/Model/Peoe.lean tied to ligand/peoe.py, ligand/mol2.py and main.non_trivial by differential execution; POLY_TERMS, RADII, valence and non-bonded tables regenerated from /repo each run (gen/ligand.py)",
    "float summation order and pow(): answers compared at 1e-9 (the conservation theorem is over an ordered field, for every electronegativity function)",
]
ASSUMPTIONS = ["MOL2 files whose atom ids are the positions of the atom lines (the reader indexes bonds by position)"]
DATA = REPO / "tests" / "data"


# ------------------------------------------------------------------ molecule generator


class MolGen:
    def __init__(self, rng):
        self.rng = rng
        self.atoms = []  # (type)
        self.bonds = []  # (i, j, type)

    def atom(self, ty):
        self.atoms.append(ty)
        return len(self.atoms) - 1

    def bond(self, i, j, t="1"):
        self.bonds.append((i, j, t))

    def hydrogens(self, i, n):
        for _ in range(n):
            self.bond(i, self.atom("H"))


def gen_molecule(rng: random.Random):
    g = MolGen(rng)
    feats = set()
    # backbone chain of sp3 carbons
    n = rng.randint(1, 5)
    chain = [g.atom("C.3") for _ in range(n)]
    free = {c: 4 for c in chain}
    for a, b in zip(chain, chain[1:]):
        g.bond(a, b)
        free[a] -= 1
        free[b] -= 1

    def attach():
        cs = [c for c in chain if free[c] > 0]
        if not cs:
            return None
        c = rng.choice(cs)
        free[c] -= 1
        return c

    for grp in rng.sample(["carboxylate", "ammonium", "hydroxyl", "phosphate", "ring", "amide", "halogen", "amine", "nitrile", "thiol", "carbonyl", "sulfone"], rng.randint(0, 4)):
        c = attach()
        if c is None:
            break
        feats.add(grp)
        if grp == "carboxylate":
            cc = g.atom("C.2")
            g.bond(c, cc)
            o1, o2 = g.atom("O.co2"), g.atom("O.co2")
            g.bond(cc, o1, rng.choice(["1", "2", "ar"]))
            g.bond(cc, o2, rng.choice(["1", "ar"]))
        elif grp == "ammonium":
            nn = g.atom(rng.choice(["N.4", "N.3"]))
            g.bond(c, nn)
            g.hydrogens(nn, 3)
        elif grp == "amine":
            nn = g.atom("N.3")
            g.bond(c, nn)
            g.hydrogens(nn, 2)
        elif grp == "hydroxyl":
            o = g.atom("O.3")
            g.bond(c, o)
            g.hydrogens(o, 1)
        elif grp == "thiol":
            s = g.atom("S.3")
            g.bond(c, s)
            g.hydrogens(s, 1)
        elif grp == "phosphate":
            o = g.atom("O.3")
            g.bond(c, o)
            p = g.atom("P.3")
            g.bond(o, p)
            g.bond(p, g.atom("O.2"), "2")
            for _ in range(2):
                g.bond(p, g.atom("O.3"))
        elif grp == "ring":
            ring = [g.atom("C.ar") for _ in range(6)]
            if rng.random() < 0.3:
                g.atoms[ring[3]] = "N.ar"
            for k in range(6):
                g.bond(ring[k], ring[(k + 1) % 6], "ar")
            g.bond(c, ring[0])
            for k in range(1, 6):
                if g.atoms[ring[k]] == "C.ar":
                    g.hydrogens(ring[k], 1)
        elif grp == "amide":
            cc = g.atom("C.2")
            g.bond(c, cc)
            g.bond(cc, g.atom("O.2"), "2")
            nn = g.atom(rng.choice(["N.am", "N.pl3"]))
            g.bond(cc, nn)
            g.hydrogens(nn, 2)
        elif grp == "halogen":
            g.bond(c, g.atom(rng.choice(["F", "Cl", "Br", "I"])))
        elif grp == "nitrile":
            cc = g.atom("C.1")
            g.bond(c, cc)
            g.bond(cc, g.atom("N.1"), "3")
        elif grp == "carbonyl":
            cc = g.atom("C.2")
            g.bond(c, cc)
            g.bond(cc, g.atom("O.2"), "2")
            g.hydrogens(cc, 1)
        elif grp == "sulfone":
            s = g.atom("S.o2")
            g.bond(c, s)
            g.bond(s, g.atom("O.2"), "2")
            g.bond(s, g.atom("O.2"), "2")
            me = g.atom("C.3")
            g.bond(s, me)
            g.hydrogens(me, 3)
    for c in chain:
        g.hydrogens(c, free[c])
    return g.atoms, g.bonds, feats


def names_for(rng, n, style):
    if style == "indexed":
        return [f"A{i + 1}" for i in range(n)]
    out = set()
    while len(out) < n:
        out.add("".join(rng.choice(string.ascii_uppercase) for _ in range(rng.randint(1, 3))) + str(rng.randint(0, 99)))
    out = list(out)
    rng.shuffle(out)
    return out


def to_mol2(types, bonds, names, resname="LIG"):
    lines = ["@<TRIPOS>MOLECULE", resname, f"{len(types)} {len(bonds)} 1", "SMALL", "NO_CHARGES", "", "@<TRIPOS>ATOM"]
    for i, (t, n) in enumerate(zip(types, names)):
        lines.append(f"{i + 1:>4} {n:<6} {1.5 * i:9.4f} {0.3 * (i % 5):9.4f} {0.2 * (i % 3):9.4f} {t:<6} 1 {resname} 0.0000")
    lines.append("@<TRIPOS>BOND")
    for k, (i, j, t) in enumerate(bonds):
        lines.append(f"{k + 1:>4} {i + 1:>4} {j + 1:>4} {t}")
    lines.append("@<TRIPOS>SUBSTRUCTURE")
    lines.append(f"1 {resname} 1")
    return "\n".join(lines) + "\n"


def real_params(mol2_text):
    from pdb2pqr.ligand.mol2 import Mol2Molecule

    G.quiet()
    m = Mol2Molecule()
    try:
        m.read(io.StringIO(mol2_text))
        formal = [a.formal_charge for a in m.atoms.values()]
        m.assign_parameters()
    except (KeyError, ValueError, NotImplementedError, IndexError) as e:
        return type(e).__name__, None
    return "ok", {"names": list(m.atoms), "types": [a.type for a in m.atoms.values()], "formal": formal, "charge": [a.charge for a in m.atoms.values()], "radius": [a.radius for a in m.atoms.values()]}


def permute(rng, types, bonds, names):
    n = len(types)
    perm = list(range(n))
    rng.shuffle(perm)  # new position k holds old atom perm[k]
    inv = {old: new for new, old in enumerate(perm)}
    t2 = [types[o] for o in perm]
    n2 = [names[o] for o in perm]
    b2 = [(inv[i], inv[j], t) for i, j, t in bonds]
    rng.shuffle(b2)
    b2 = [((i, j, t) if rng.random() < 0.5 else (j, i, t)) for i, j, t in b2]
    return t2, b2, n2, perm


def check_molecule(ctx: Ctx, rng, types, bonds, names, label, feats):
    text = to_mol2(types, bonds, names)
    status, real = real_params(text)
    ctx.evaluations += 1
    ctx.count("molecule-outcome", status)
    ctx.distinct.add(("mol", tuple(sorted(feats)), len(types) // 10))
    out = []
    mf = None
    if ctx.driver.available():
        req = f"peoe.run\t{','.join(hexs(n) for n in names)}\t{','.join(hexs(t) for t in types)}\t{';'.join(f'{i},{j},{t if t != chr(97) + chr(114) else 4}' for i, j, t in bonds)}"
        ans = ctx.driver.ask([req])[0]
        if ans == "KeyError" or status != "ok":
            if (ans == "KeyError") != (status != "ok"):
                ctx.disagree("Mol2Molecule.assign_parameters(error)", {"mol2": text}, ans[:60], status)
        else:
            f2, q, rad = ans.split(";")
            mf = [int(x) / 2 for x in f2.split(",")]
            mq = [unbits(x) for x in q.split(",")]
            mr = [None if x == "KeyError" else int(x) / 10000 for x in rad.split(",")]
            if mf != [float(x) for x in real["formal"]]:
                ctx.disagree("Mol2Atom.formal_charge", {"mol2": text}, str(mf), str(real["formal"]))
            elif not all(abs(a - b) <= 1e-9 * max(1, abs(a)) for a, b in zip(mq, real["charge"])):
                ctx.disagree("peoe.equilibrate", {"mol2": text}, str(mq[:6]), str(real["charge"][:6]))
            if mr != real["radius"]:
                ctx.disagree("Mol2Atom.assign_radius", {"mol2": text}, str(mr), str(real["radius"]))
    if status != "ok":
        return out
    # oracle
    tot, ftot = sum(real["charge"]), sum(real["formal"])
    if abs(tot - ftot) > 1e-9 * max(1, len(types)):
        out.append(({"aspect": "conservation", "features": ",".join(sorted(feats))}, f"{label}: charges sum to {tot}, formal charges to {ftot}", {"mol2": text}))
    elif mf is not None and abs(tot - sum(mf)) > 1e-9 * max(1, len(types)):
        # the molecule's formal charge by the valence rules as transcribed in the model (Model/Peoe.lean over the
        # generated ligand tables), not as the run under test computed it: a defect in the perception of bond orders
        # shifts the implementation's own formal charges and its total together
        out.append(({"aspect": "conservation", "features": ",".join(sorted(feats)), "reference": "valence-rules"}, f"{label}: charges sum to {tot}, the molecule's formal charge by the valence rules is {sum(mf)} (the run's own formal charges sum to {ftot})", {"mol2": text}))
    if any(not (r > 0) for r in real["radius"]):
        out.append(({"aspect": "radius", "features": "-"}, f"{label}: non-positive radius", {"mol2": text}))
    # renaming
    n2 = names_for(rng, len(names), "random")
    st2, r2 = real_params(to_mol2(types, bonds, n2))
    ctx.evaluations += 1
    if st2 != "ok" or any(abs(a - b) > 1e-12 for a, b in zip(real["charge"], r2["charge"])):
        out.append(({"aspect": "names", "features": ",".join(sorted(feats))}, f"{label}: charges change when atoms are renamed", {"mol2": text, "renamed": to_mol2(types, bonds, n2)}))
    # reordering: same multiset; identical per atom except among phosphate oxygens
    t3, b3, n3, perm = permute(rng, types, bonds, names)
    st3, r3 = real_params(to_mol2(t3, b3, n3))
    ctx.evaluations += 1
    if st3 != "ok":
        out.append(({"aspect": "order", "features": ",".join(sorted(feats))}, f"{label}: permuted molecule fails ({st3})", {"mol2": text, "permuted": to_mol2(t3, b3, n3)}))
    else:
        back = {n: q for n, q in zip(r3["names"], r3["charge"])}
        orig = {n: q for n, q in zip(real["names"], real["charge"])}
        if "phosphate" in feats or any(t.startswith("P") for t in types):
            same = all(abs(a - b) <= 1e-9 for a, b in zip(sorted(orig.values()), sorted(back.values())))
        else:
            same = all(abs(orig[n] - back[n]) <= 1e-9 for n in orig)
        if not same:
            out.append(({"aspect": "order", "features": ",".join(sorted(feats))}, f"{label}: charges depend on the atom order beyond a permutation of equivalent atoms", {"mol2": text, "permuted": to_mol2(t3, b3, n3)}))
    return out


def parse_stored(path):
    """types/bonds/names of a stored MOL2 file (ids are positions in all of them)"""
    types, names, bonds = [], [], []
    sec = None
    for l in path.read_text().splitlines():
        if l.startswith("@<TRIPOS>"):
            sec = l.strip()
            continue
        w = l.split()
        if sec == "@<TRIPOS>ATOM" and len(w) >= 8:
            parts = w[5].split(".")
            parts[0] = parts[0].capitalize()
            if len(parts) == 2:
                parts[1] = parts[1].lower()
            types.append(".".join(parts))
            names.append(w[1])
        elif sec == "@<TRIPOS>BOND" and len(w) >= 4:
            bonds.append((int(w[1]) - 1, int(w[2]) - 1, w[3]))
    return types, bonds, names


# ------------------------------------------------------------------ complexes


ALT_MODES = ("whole-block", "whole-interleaved", "partial-interleaved", "partial-block")


def with_alt_locs(rng, ligand, feats):
    """the ligand's HETATM records with alternate locations, as refinement programs deposit a ligand modelled in
    two (sometimes three) conformations: the whole ligand or only some of its atoms carry altLoc identifiers; the
    copies of one atom follow each other (interleaved) or the conformers are listed one after the other (block);
    the identifiers need not be listed in alphabetical order. The first conformer keeps the MOL2 coordinates."""
    mode = rng.choice(ALT_MODES)
    feats.add("altloc:" + mode)
    ids = ["A", "B"] if rng.random() < 0.8 else ["A", "B", "C"]
    if len(ids) == 3:
        feats.add("altloc:three-conformers")
    if rng.random() < 0.4:
        rng.shuffle(ids)
        if ids[0] != "A":
            feats.add("altloc:" + ids[0] + "-listed-first")
    n = len(ligand)
    if mode.startswith("whole"):
        multi = set(range(n))
    else:
        multi = set(rng.sample(range(n), rng.randint(1, max(1, n - 1)))) if n > 1 else {0}
    occ = f"{1.0 / len(ids):.2f}"

    def copies(i):
        res = []
        for k, alt in enumerate(ids):
            a = ligand[i].copy()
            a.alt, a.occ = alt, occ
            if k:
                a.x, a.y, a.z = round(a.x + 0.35 * k, 3), round(a.y - 0.27 * k, 3), round(a.z + 0.41 * k, 3)
            res.append(a)
        return res

    cp = {i: copies(i) for i in multi}
    if mode.endswith("interleaved"):
        recs = []
        for i in range(n):
            recs.extend(cp[i] if i in multi else [ligand[i]])
    else:
        # conformer by conformer; atoms without alternate locations are listed with the first conformer
        recs = [cp[i][0] if i in multi else ligand[i] for i in range(n)]
        for k in range(1, len(ids)):
            recs.extend(cp[i][k] for i in range(n) if i in multi)
    return recs, mode


def gen_complex(rng, alt_locs=False):
    feats = set()
    _f, res = G.window(rng, rng.choice([3, 4, 5]))
    G.set_chain(res, "A", 1)
    c = G.centroid(res)
    # ligand: ethanol-like with random names
    types, bonds, _fe = gen_molecule(rng)
    lig_names = [n[:2] + str(i) for i, n in enumerate(names_for(rng, len(types), "random"))]
    lig_names = [n[:4] for n in lig_names]
    if len(set(lig_names)) != len(lig_names):
        lig_names = [f"L{i}" for i in range(len(types))]
    if rng.random() < 0.4:
        lig_names[0] = "O"  # same name as a water oxygen
        feats.add("ligand-atom-named-O")
    lig_res = rng.choice(["LIG", "DRG", "ETH"])
    het_lines = []
    for i, (t, n) in enumerate(zip(types, lig_names)):
        x, y, z = c[0] + 20 + 1.5 * i, c[1] + 0.3 * (i % 5), c[2] + 0.2 * (i % 3)
        het_lines.append(f"HETATM{0:5d} {n:<4}{' '}{lig_res:>3} L{1:4d}    {x:8.3f}{y:8.3f}{z:8.3f}  1.00  0.00          {t.split('.')[0].upper()[:2]:>2}")
    ligand = [G.Atom(l) for l in het_lines]
    # the MOL2 coordinates must match
    mol2 = ["@<TRIPOS>MOLECULE", lig_res, f"{len(types)} {len(bonds)} 1", "SMALL", "NO_CHARGES", "", "@<TRIPOS>ATOM"]
    for i, (t, n, a) in enumerate(zip(types, lig_names, ligand)):
        mol2.append(f"{i + 1:>4} {n:<6} {a.x:9.4f} {a.y:9.4f} {a.z:9.4f} {t:<6} 1 {lig_res} 0.0000")
    mol2.append("@<TRIPOS>BOND")
    for k, (i, j, t) in enumerate(bonds):
        mol2.append(f"{k + 1:>4} {i + 1:>4} {j + 1:>4} {t}")
    mol2.append("@<TRIPOS>SUBSTRUCTURE")
    mol2.append(f"1 {lig_res} 1")
    others = []
    if rng.random() < 0.6:
        others.append(G.water(rng, "A", 900, c, 9.0))
        feats.add("water")
    if rng.random() < 0.5:
        # chains are processed in the order of their identifiers: the other group may come before (A) or after (Z) the ligand (L)
        och = rng.choice(["A", "Z"])
        feats.add("other-hetero-" + ("before" if och == "A" else "after") + "-ligand")
        w = G.water(rng, och, 950, (c[0] - 25, c[1], c[2]), 2.0, "XYZ")
        w[0].name = rng.choice([lig_names[1 % len(lig_names)], "ZN", "Q9"])
        if w[0].name in lig_names:
            feats.add("other-hetero-shares-name")
        else:
            feats.add("other-hetero")
        others.append(w)
    order = rng.random() < 0.5
    chains = [res]
    if rng.random() < 0.3:
        # a second peptide chain whose identifier sorts after the ligand's
        _f2, res2 = G.window(rng, 3)
        G.set_chain(res2, "P", 1)
        G.rigid(res2, [[1, 0, 0], [0, 1, 0], [0, 0, 1]], (c[0] - G.centroid(res2)[0], c[1] - G.centroid(res2)[1] + 45.0, c[2] - G.centroid(res2)[2]))
        chains.append(res2)
        feats.add("second-chain-after-ligand")
    if alt_locs:
        ligand, _mode = with_alt_locs(rng, ligand, feats)
    text = G.to_pdb(chains, ([ligand] + others) if order else (others + [ligand]))
    return text, "\n".join(mol2) + "\n", lig_res, lig_names, feats


def collapse_alt_locs(text, lig_res):
    """the same file with the ligand in one conformation: of the records of one ligand atom name the first listed is kept, its altLoc blanked"""
    seen, out = set(), []
    for l in text.splitlines():
        if l.startswith("HETATM") and l[17:20].strip() == lig_res:
            if l[12:16].strip() in seen:
                continue
            seen.add(l[12:16].strip())
            l = l[:16] + " " + l[17:]
        out.append(l)
    return "\n".join(out) + "\n"


def ligand_output_oracle(lines, text, lig_res, lig, sigf, replay):
    """clauses about the ligand's lines of the written PQR, all from the request: the MOL2 file (names, parameters, formal charges)
    and the HETATM records of the PDB file. `lines` = token lists of a --whitespace --keep-chain PQR."""
    out = []
    lig_lines = [t for t in lines if t[3] == lig_res]
    want = {n: (q, rad) for n, q, rad in zip(lig["names"], lig["charge"], lig["radius"])}
    # each MOL2 atom name exactly once
    count = {n: sum(1 for t in lig_lines if t[2] == n) for n in lig["names"]}
    wrong = {n: c for n, c in count.items() if c != 1}
    if wrong:
        out.append(({"aspect": "transfer", "kind": "ligand-atom-count", "features": sigf}, f"ligand atoms not written exactly once (name: times written): {dict(sorted(wrong.items())[:4])}", replay))
    # the written charges of the ligand residue add up to the formal charge of the MOL2 molecule
    try:
        qs = [float(t[-2]) for t in lig_lines]
        rs = [float(t[-1]) for t in lig_lines]
        xyz = [tuple(float(v) for v in t[6:9]) for t in lig_lines]
    except (ValueError, IndexError):
        out.append(({"aspect": "transfer", "kind": "ligand-line-unreadable", "features": sigf}, "a ligand line of the PQR cannot be read", replay))
        return out
    formal = float(sum(lig["formal"]))
    if lig_lines and abs(sum(qs) - formal) > 5.1e-5 * len(qs) + 1e-9:
        out.append(({"aspect": "transfer", "kind": "ligand-charge-sum", "features": sigf}, f"the ligand's written charges sum to {sum(qs):.4f}, the MOL2 molecule's formal charge is {formal:g} ({len(qs)} lines for {len(lig['names'])} MOL2 atoms)", replay))
    # every ligand line carries the parameters of the MOL2 atom of that name
    bad = [(t[2], q, r) for t, q, r in zip(lig_lines, qs, rs) if t[2] in want and (abs(q - want[t[2]][0]) > 5.1e-5 or abs(r - want[t[2]][1]) > 5.1e-5)]
    if bad:
        n, q, r = bad[0]
        out.append(({"aspect": "transfer", "kind": "ligand-parameters", "features": sigf}, f"ligand atom {n} written with charge {q}, radius {r}; its MOL2 atom has {want[n][0]:.4f}, {want[n][1]:.4f}", replay))
    # and the position of one of the records of that name in the PDB file
    recs = {}
    for l in text.splitlines():
        if l.startswith("HETATM") and l[17:20].strip() == lig_res:
            recs.setdefault(l[12:16].strip(), []).append((float(l[30:38]), float(l[38:46]), float(l[46:54])))
    off = [t[2] for t, p in zip(lig_lines, xyz) if t[2] in recs and not any(max(abs(a - b) for a, b in zip(p, c)) <= 1.1e-3 for c in recs[t[2]])]
    if off:
        out.append(({"aspect": "transfer", "kind": "ligand-position", "features": sigf}, f"ligand atom {off[0]} is written at a position none of its PDB records has", replay))
    return out


def check_complex(ctx: Ctx, rng, alt_locs=False):
    text, mol2, lig_res, lig_names, feats = gen_complex(rng, alt_locs)
    if alt_locs:
        ctx.count("complex-ligand-alt-locs", ",".join(sorted(f[7:] for f in feats if f.startswith("altloc:"))))
    r = G.run_pipeline(text, ["--ff=AMBER", "--whitespace", "--keep-chain", "--ligand=@DIR@/lig.mol2"], extra_inputs={"lig.mol2": mol2})
    ctx.evaluations += 1
    ctx.count("complex-outcome", r.status)
    ctx.distinct.add(("complex", tuple(sorted(feats))))
    out = []
    st, lig = real_params(mol2)
    if st != "ok":
        return out
    want = {n: (q, rad) for n, q, rad in zip(lig["names"], lig["charge"], lig["radius"])}
    replay = {"pdb": text, "mol2": mol2}
    sigf = ",".join(sorted(feats))
    # non-ligand HETATM atoms whose name is also a ligand atom name
    clash = set()
    for l in text.splitlines():
        if l.startswith("HETATM") and l[17:20].strip() != lig_res and l[12:16].strip() in lig_names:
            clash.add("water" if l[17:20].strip() in ("HOH", "WAT") else "hetero")
    if r.status != "ok":
        # is the failure caused by the other hetero groups? rerun with peptide + ligand only
        core_text = "\n".join(l for l in text.splitlines() if not (l.startswith("HETATM") and l[17:20].strip() != lig_res)) + "\n"
        r0 = G.run_pipeline(core_text, ["--ff=AMBER", "--whitespace", "--keep-chain", "--ligand=@DIR@/lig.mol2"], extra_inputs={"lig.mol2": mol2})
        ctx.evaluations += 1
        if r0.status != "ok":
            if alt_locs:
                # is it the alternate locations? the same complex with the ligand in its first-listed conformation only
                r1 = G.run_pipeline(collapse_alt_locs(core_text, lig_res), ["--ff=AMBER", "--whitespace", "--keep-chain", "--ligand=@DIR@/lig.mol2"], extra_inputs={"lig.mol2": mol2})
                ctx.evaluations += 1
                if r1.status == "ok":
                    # a loud refusal (no output) is not a wrong ligand; output next to the error would be
                    ctx.count("complex-outcome", "fails-loudly-with-alternate-locations-only(" + r.status + ")")
                    if r.pqr and st == "ok":
                        out.extend(ligand_output_oracle(G.pqr_atoms(r.pqr), text, lig_res, lig, sigf, replay))
                    return out
            ctx.count("complex-outcome", "fails-without-other-groups-too(not a transfer matter)")
            return out
        w = "hetero" if "hetero" in clash else "water" if "water" in clash else "none"
        out.append(({"aspect": "transfer", "kind": "name-clash" if clash else "run-fails", "with": w}, f"peptide + ligand runs, but with the other hetero groups present the run dies ({str(r.exc.__cause__ or r.exc)[:80]}); name clash with the ligand: {sorted(clash) or 'none'}", replay))
        return out
    bio = r.biomolecule
    # tie: which atoms received ligand parameters
    if ctx.driver.available():
        ids = {}
        enc = []
        for res in bio.residues:
            row = []
            for a in res.atoms:
                ids[id(a)] = len(ids)
                row.append(f"{ids[id(a)]}:{int(a.type != 'ATOM')}:{hexs(a.name)}")
            from pdb2pqr import aa as _aa

            enc.append(("w" if isinstance(res, _aa.WAT) else "r") + ",".join(row))
        ans = ctx.driver.ask([f"lig.transfer\t{','.join(hexs(n) for n in lig_names)}\t{';'.join(enc)}"])[0]
        hit = {int(x) for x in ans.split(";")[0].split(",") if x}
        real_hit = set()
        for res in bio.residues:
            for a in res.atoms:
                if a.type == "ATOM":
                    break
                if a.name in want and (a.ffcharge, a.radius) == want[a.name]:
                    real_hit.add(ids[id(a)])
        if hit != real_hit:
            ctx.disagree("non_trivial(ligand transfer)", replay, str(sorted(hit)), str(sorted(real_hit)))
    # oracle
    lines = G.pqr_atoms(r.pqr or "")
    lig_lines = [t for t in lines if t[3] == lig_res]
    if sorted(t[2] for t in lig_lines) != sorted(lig_names):
        out.append(({"aspect": "transfer", "kind": "ligand-atoms-written", "features": sigf}, f"ligand atoms written: {sorted(t[2] for t in lig_lines)} vs {sorted(lig_names)}", replay))
    for res in bio.residues:
        if res.name == lig_res:
            continue
        for a in res.atoms:
            if a.type != "ATOM" and a.name in want and (a.ffcharge, a.radius) == want[a.name]:
                out.append(({"aspect": "transfer", "kind": "name-clash", "with": "water" if res.name in ("WAT", "HOH") else "hetero"}, f"{res} {a.name} carries the ligand's parameters {want[a.name]}", replay))
    out.extend(ligand_output_oracle(lines, text, lig_res, lig, sigf, replay))
    names_written = [(t[3], t[4], t[5], t[2]) for t in lines]
    dup = {x for x in names_written if names_written.count(x) > 1}
    if dup:
        out.append(({"aspect": "transfer", "kind": "written-twice", "features": sigf}, f"atoms written twice: {sorted(dup)[:3]}", replay))
    return out


def run(ctx: Ctx):
    rng = ctx.rng
    ctx.extra["rule"] = (
        "generated MOL2 molecules (carbon chains with carboxylate/ammonium/amine/hydroxyl/thiol/phosphate/aromatic ring/amide/halogen/nitrile/carbonyl/sulfone groups, hydrogens filled in, random names) "
        "plus the stored ligands; each also renamed and permuted (atoms and bonds, bond direction); complexes: peptide window + ligand as HETATM + water + a second hetero group, some sharing an atom name with the ligand; "
        "a second complex stream gives the ligand's HETATM records alternate locations (whole ligand or some atoms in A/B(/C), copies interleaved or conformer blocks, any listing order): each MOL2 atom name written once with the MOL2 parameters, charges summing to the formal charge; "
        "a case is (feature set, size class); distinct counts distinct tuples"
    )
    seen = set()

    def report(items):
        for sig, msg, rp in items:
            k = tuple(sorted(sig.items()))
            if k in seen:
                continue
            seen.add(k)
            ctx.violate(sig, msg, rp)
            ctx.sample({"signature": sig, "message": msg}, limit=8)

    for p in sorted(DATA.glob("*.mol2")):
        types, bonds, names = parse_stored(p)
        report(check_molecule(ctx, rng, types, bonds, names, p.name, {"stored:" + p.stem}))
    for ci in range(ctx.scale(150, 15000)):
        types, bonds, feats = gen_molecule(rng)
        names = names_for(rng, len(types), rng.choice(["indexed", "random"]))
        if ci < 1:
            ctx.sample({"mol2": to_mol2(types, bonds, names)[:600]})
        report(check_molecule(ctx, rng, types, bonds, names, f"generated#{ci}", feats))
    for ci in range(ctx.scale(15, 400)):
        report(check_complex(ctx, rng))
    # the same complexes with the ligand's HETATM records in alternate locations
    for ci in range(ctx.scale(14, 300)):
        report(check_complex(ctx, rng, alt_locs=True))


def replay(ctx: Ctx, data: dict) -> bool:
    rp = data.get("replay", data)
    if "pdb" in rp:
        r = G.run_pipeline(rp["pdb"], ["--ff=AMBER", "--whitespace", "--keep-chain", "--ligand=@DIR@/lig.mol2"], extra_inputs={"lig.mol2": rp["mol2"]})
        print("status:", r.status, r.exc)
        print(r.pqr[-600:] if r.pqr else "")
        # the ligand clauses on the written file (residue name = second line of the MOL2 file, as gen_complex writes it)
        lig_res = rp["mol2"].splitlines()[1].strip()
        st, lig = real_params(rp["mol2"])
        alts = sorted({l[16] for l in rp["pdb"].splitlines() if l.startswith("HETATM") and l[17:20].strip() == lig_res and l[16] != " "})
        print("ligand", lig_res, "alternate locations in the PDB file:", alts or "none")
        found = []
        if st == "ok" and r.pqr:
            found = ligand_output_oracle(G.pqr_atoms(r.pqr), rp["pdb"], lig_res, lig, "replay", rp)
            for sig, msg, _rp in found:
                print("VIOLATED", sig["kind"], "#", msg)
        kind = (data.get("signature") or {}).get("kind", "")
        if kind in ("ligand-atom-count", "ligand-charge-sum", "ligand-parameters", "ligand-position", "ligand-line-unreadable"):
            # the clauses of ligand_output_oracle are re-evaluated here; the other kinds are shown only
            return any(sig["kind"] == kind for sig, _m, _r in found)
        return True
    st, real = real_params(rp["mol2"])
    print(st, None if real is None else (sum(real["charge"]), sum(real["formal"])))
    return True
