"""Run-time monitor shared by C04 and C05: wraps (from the harness, no source change) every route
by which coordinates are written — Atom.__setattr__ for x/y/z, Debump.set_dihedral_angle,
Residue.rotate_tetrahedral, quatfit.find_coordinates, the create_atom methods — and records what
the oracles and the model ties need."""

from __future__ import annotations

import math
import sys


def dist(a, b):
    return math.sqrt((a[0] - b[0]) ** 2 + (a[1] - b[1]) ** 2 + (a[2] - b[2]) ** 2)


class Monitor:
    def __init__(self, max_torsion_records=400, max_fit_records=2000):
        self.init_coords = {}  # id(atom) -> (x, y, z) at the end of Atom.__init__
        self.init_names = {}
        self.atoms = []  # strong references (ids stay unique)
        self.writes = []  # (atom, caller function name) for x/y/z writes outside __init__
        self.writers = {}  # caller -> count
        self.torsions = []  # dict per set_dihedral_angle call (capped)
        self.torsion_calls = 0
        self.fits = []  # dict per find_coordinates call (capped)
        self.fit_calls = 0
        self.created = []  # dict per create_atom call
        self.flip_alias = {}  # id(flip copy) -> original atom object
        self.tetra = []  # dict per rotate_tetrahedral call (capped)
        self.tetra_calls = 0
        self.nobonds = []  # (atom coords, close-atom coords, new coords) per make_atom_with_no_bonds call
        self.max_t = max_torsion_records
        self.max_f = max_fit_records
        self._undo = []

    # ------------------------------------------------------------------ install / remove
    @staticmethod
    def pair_fit(res, fit, bio):
        """which template atom each fit point stands for, and which real atom it was taken from, at the moment of
        the fit. The neighbours across the peptide bond are taken from the ORDER of the residues in the chain (not
        from the residue's peptide_n / peptide_c attributes). -> list of (template name, where, atom name)"""
        ref = getattr(res, "reference", None)
        if ref is None:
            return None
        prev_res = next_res = None
        for ch in getattr(bio, "chains", []) or []:
            rs = ch.residues
            for i, r in enumerate(rs):
                if r is res:
                    prev_res = rs[i - 1] if i > 0 else None
                    next_res = rs[i + 1] if i + 1 < len(rs) else None
        # a neighbour whose CA is more than 4.05 A from this residue's CA is not bonded to it (3.8 A across a
        # trans peptide bond, 3.0 A across a cis one): there is a gap in the chain between the two
        gaps = set()
        ca = res.get_atom("CA") if res.has_atom("CA") else None
        for lab, r in (("next", next_res), ("prev", prev_res)):
            if r is None:
                continue
            # when both atoms of the peptide bond exist, the code's own documented criterion decides (C-N distance
            # against PEPTIDE_DIST, measured here from the coordinates); otherwise the CA-CA distance
            c_at = (res if lab == "next" else r).get_atom("C") if (res if lab == "next" else r).has_atom("C") else None
            n_at = (r if lab == "next" else res).get_atom("N") if (r if lab == "next" else res).has_atom("N") else None
            if c_at is not None and n_at is not None and not getattr(c_at, "added", False) and not getattr(n_at, "added", False):
                from pdb2pqr.config import PEPTIDE_DIST as _PD

                if ((c_at.x - n_at.x) ** 2 + (c_at.y - n_at.y) ** 2 + (c_at.z - n_at.z) ** 2) ** 0.5 > _PD:
                    gaps.add(lab)
                continue
            if ca is not None and r.has_atom("CA"):
                o = r.get_atom("CA")
                if ((ca.x - o.x) ** 2 + (ca.y - o.y) ** 2 + (ca.z - o.z) ** 2) ** 0.5 > 4.05:
                    gaps.add(lab)
        fit["gaps"] = sorted(gaps)
        out = []
        for rp, dp in zip(fit["refs"], fit["defs"]):
            t = next((n for n, a in ref.map.items() if tuple(map(float, a.coords)) == dp), None)
            where, an = "other", None
            for lab, r in (("own", res), ("next", next_res), ("prev", prev_res)):
                if r is None:
                    continue
                hit = next((a.name for a in r.atoms if tuple(map(float, a.coords)) == rp), None)
                if hit is not None:
                    where, an = lab, hit
                    break
            out.append((t, where, an))
        return out

    def __enter__(self):
        from pdb2pqr import aa, debump, na, quatfit, residue, structures

        mon = self

        orig_init = structures.Atom.__init__

        def atom_init(self_, *a, **k):
            orig_init(self_, *a, **k)
            if type(self_) is structures.Atom:
                mon.atoms.append(self_)
                mon.init_coords[id(self_)] = (self_.x, self_.y, self_.z)
                mon.init_names[id(self_)] = self_.name

        structures.Atom.__init__ = atom_init
        self._undo.append(lambda: setattr(structures.Atom, "__init__", orig_init))

        def atom_setattr(self_, name, value):
            if name in ("x", "y", "z") and type(self_) is structures.Atom:
                caller = sys._getframe(1).f_code.co_name
                if caller not in ("__init__", "atom_init"):
                    mon.writes.append((self_, caller))
                    mon.writers[caller] = mon.writers.get(caller, 0) + 1
            object.__setattr__(self_, name, value)

        structures.Atom.__setattr__ = atom_setattr
        self._undo.append(lambda: delattr(structures.Atom, "__setattr__"))

        orig_sda = debump.Debump.set_dihedral_angle

        def sda(self_, res, anglenum, angle):
            mon.torsion_calls += 1
            rec = None
            if len(mon.torsions) < mon.max_t:
                names = res.reference.dihedrals[anglenum].split()
                rec = {
                    "residue": res,
                    "resname": res.name,
                    "base": res.reference.name,
                    "patches": list(res.patches),
                    "is_n": bool(res.is_n_term),
                    "is_c": bool(res.is_c_term),
                    "present": [a.name for a in res.atoms],
                    "dihedral": names,
                    "angle": float(angle),
                    "before": {a.name: (a.x, a.y, a.z) for a in res.atoms},
                    "refdist": {a.name: a.refdistance for a in res.atoms},
                    "moveable": list(res.get_moveable_names(names[2])) if res.has_atom(names[2]) else None,
                    "ref_atoms": {n: list(a.bonds) for n, a in res.reference.map.items()},
                    "ref_dihedrals": list(res.reference.dihedrals),
                    "caller": sys._getframe(1).f_code.co_name,
                }
            out = orig_sda(self_, res, anglenum, angle)
            if rec is not None:
                rec["after"] = {a.name: (a.x, a.y, a.z) for a in res.atoms}
                mon.torsions.append(rec)
            return out

        debump.Debump.set_dihedral_angle = sda
        self._undo.append(lambda: setattr(debump.Debump, "set_dihedral_angle", orig_sda))

        orig_fc = quatfit.find_coordinates

        def fc(numpoints, refcoords, defcoords, defatomcoords):
            out = orig_fc(numpoints, refcoords, defcoords, defatomcoords)
            mon.fit_calls += 1
            if len(mon.fits) < mon.max_f:
                mon.fits.append(
                    {
                        "n": numpoints,
                        "refs": [tuple(map(float, c)) for c in refcoords],
                        "defs": [tuple(map(float, c)) for c in defcoords],
                        "defatom": tuple(map(float, defatomcoords)),
                        "out": tuple(map(float, out)),
                        "caller": sys._getframe(1).f_code.co_name,
                    }
                )
            return out

        quatfit.find_coordinates = fc
        self._undo.append(lambda: setattr(quatfit, "find_coordinates", orig_fc))

        orig_rt = residue.Residue.__dict__["rotate_tetrahedral"]

        def rt(cls, atom1, atom2, angle):
            mon.tetra_calls += 1
            moved = [a for a in atom2.bonds if a != atom1]
            rec = None
            if len(mon.tetra) < mon.max_t:
                rec = {"a1": tuple(atom1.coords), "a2": tuple(atom2.coords), "angle": float(angle), "moved": moved, "before": [tuple(a.coords) for a in moved], "caller": sys._getframe(1).f_code.co_name}
            out = orig_rt.__func__(cls, atom1, atom2, angle)
            if rec is not None:
                rec["after"] = [tuple(a.coords) for a in moved]
                mon.tetra.append(rec)
            return out

        residue.Residue.rotate_tetrahedral = classmethod(rt)
        self._undo.append(lambda: setattr(residue.Residue, "rotate_tetrahedral", orig_rt))

        from pdb2pqr.hydrogens import optimize

        orig_nb = optimize.Optimize.make_atom_with_no_bonds

        def nb(self_, atom, closeatom, addname):
            a, c = tuple(atom.coords), tuple(closeatom.coords)
            out = orig_nb(self_, atom, closeatom, addname)
            new = atom.residue.get_atom(addname)
            if new is not None and len(mon.nobonds) < mon.max_t:
                mon.nobonds.append((a, c, tuple(new.coords)))
            return out

        optimize.Optimize.make_atom_with_no_bonds = nb
        self._undo.append(lambda: setattr(optimize.Optimize, "make_atom_with_no_bonds", orig_nb))

        from pdb2pqr import biomolecule as bm_
        from pdb2pqr.config import PEPTIDE_DIST

        orig_ub = bm_.Biomolecule.update_bonds
        mon.links = []

        def ub(self_):
            out = orig_ub(self_)
            if len(mon.links) < 4000:
                for ch in self_.chains:
                    for i in range(len(ch.residues) - 1):
                        r1, r2 = ch.residues[i], ch.residues[i + 1]
                        if not isinstance(r1, aa.Amino) or not isinstance(r2, aa.Amino):
                            continue
                        c, n = r1.get_atom("C"), r2.get_atom("N")
                        far = c is not None and n is not None and ((c.x - n.x) ** 2 + (c.y - n.y) ** 2 + (c.z - n.z) ** 2) ** 0.5 > PEPTIDE_DIST
                        mon.links.append({"hasC": c is not None, "hasN": n is not None, "far": bool(far), "pn": getattr(r1, "peptide_n", None) is not None, "pc": getattr(r2, "peptide_c", None) is not None, "pair": f"{r1} / {r2}"})
            return out

        bm_.Biomolecule.update_bonds = ub
        self._undo.append(lambda: setattr(bm_.Biomolecule, "update_bonds", orig_ub))

        orig_rbt = aa.Amino.rebuild_tetrahedral
        mon.thirds = []

        def rbt(self_, atomname):
            rec = None
            try:
                atomref = self_.reference.map.get(atomname)
                bondname = atomref.bonds[0] if atomref is not None and atomref.bonds else None
                if bondname is not None and self_.has_atom(bondname):
                    refb = self_.reference.map[bondname].bonds
                    nxt = [b for b in refb if not b.startswith("H") and b not in ("C-1", "N+1")]
                    if sum(1 for b in refb if b.startswith("H")) == 3 and nxt and self_.has_atom(nxt[-1]):
                        bondatom = self_.get_atom(bondname)
                        hs = [self_.get_atom(b) for b in bondatom.reference.bonds if self_.has_atom(b) and b.startswith("H")]
                        if len(bondatom.bonds) == 3 and len(hs) == 2 and len(mon.thirds) < mon.max_t:
                            rec = {"next": tuple(map(float, self_.get_atom(nxt[-1]).coords)), "bond": tuple(map(float, bondatom.coords)), "h0": tuple(map(float, hs[0].coords)), "h1": tuple(map(float, hs[1].coords)), "residue": self_, "name": atomname}
            except Exception:  # noqa: BLE001
                rec = None
            out = orig_rbt(self_, atomname)
            if rec is not None and out and self_.has_atom(atomname):
                rec["new"] = tuple(map(float, self_.get_atom(atomname).coords))
                mon.thirds.append(rec)
            return out

        aa.Amino.rebuild_tetrahedral = rbt
        self._undo.append(lambda: setattr(aa.Amino, "rebuild_tetrahedral", orig_rbt))

        def wrap_create(klass):
            if "create_atom" not in klass.__dict__:
                return
            orig = klass.__dict__["create_atom"]

            def create_atom(self_, atomname, newcoords, *a, **k):
                before = set(map(id, self_.atoms))
                original = self_.get_atom(atomname[:-4]) if atomname.endswith("FLIP") and self_.has_atom(atomname[:-4]) else None
                out = orig(self_, atomname, newcoords, *a, **k)
                new = [x for x in self_.atoms if id(x) not in before]
                caller_frame = sys._getframe(1)
                present_before = [a_.name for a_ in self_.atoms if id(a_) in before]
                for x in new:
                    fit = mon.fits[-1] if mon.fits and tuple(map(float, newcoords)) == mon.fits[-1]["out"] and mon.fit_calls <= mon.max_f else None
                    pairing = None
                    if fit is not None and caller_frame.f_code.co_name in ("repair_heavy", "add_hydrogens"):
                        pairing = mon.pair_fit(self_, fit, caller_frame.f_locals.get("self"))
                    mon.created.append({"atom": x, "name": atomname, "residue": self_, "coords": tuple(map(float, newcoords)), "fit": fit, "caller": caller_frame.f_code.co_name, "pairing": pairing,
                                        "present": present_before + (["N+1"] if getattr(self_, "peptide_n", None) is not None else []) + (["C-1"] if getattr(self_, "peptide_c", None) is not None else []),
                                        "resname": self_.name, "patches": list(getattr(self_, "patches", []) or [])})
                    if original is not None:
                        mon.flip_alias[id(x)] = original
                return out

            setattr(klass, "create_atom", create_atom)
            self._undo.append(lambda: setattr(klass, "create_atom", orig))

        seen = set()
        for mod in (residue, aa, na):
            for v in vars(mod).values():
                if isinstance(v, type) and issubclass(v, residue.Residue) and v not in seen:
                    seen.add(v)
                    wrap_create(v)
        return self

    def __exit__(self, *exc):
        for u in reversed(self._undo):
            u()
        self._undo = []
        return False

    # ------------------------------------------------------------------ helpers
    def logical(self, atom):
        """the input atom an object stands for (flip copies stand for their original)"""
        seen = 0
        while id(atom) in self.flip_alias and seen < 5:
            atom = self.flip_alias[id(atom)]
            seen += 1
        return atom
