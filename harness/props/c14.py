"""C14 — neighbour search returns every atom within range.

Tie: the real cells.Cells driven by random operation sequences (positions incl. negatives, zeros,
exact cell boundaries, +-1e5; adds, removes, moves, protocol-violating sequences too) vs the Lean
model P2P.Model.Cells. Oracle: (1) on protocol-obeying histories the distance-filtered query equals
brute force; (2) monitor on real pipeline runs: every real get_near_cells call, filtered at the
cell size, is compared with brute force over the live structure; lost / ghost neighbours are
attributed to the call site that moved or removed an atom without updating the cell list;
(3) the goal clause at the callers: where the calling function filters the returned atoms with a
distance of its own (hydrogen-bond detection: the literal in `dist < 4.3` of optimize_hydrogens,
debumper: the sum of the two bump radii), the brute-force comparison is made at THAT distance, read
from the caller's source / constants — a cell list whose cell size is smaller than the caller's cutoff
loses atoms outside the 27 adjacent cells (kind `cutoff-exceeds-cell-size`). Monitored runs include
water-only optimisation (--noopt) and default runs on inputs whose waters have partners in
hydrogen-bond range."""

from __future__ import annotations

import inspect
import math
import random
import re
import sys

import gen_struct as G
from core import Ctx
from props.c17 import bits

import gen.consts as genconsts

GENERATORS = (genconsts.generate,)
TRUSTED_BASE = [
    "Lean 4.33.0 kernel; axioms ⊆ {propext, Classical.choice, Quot.sound}",
    "hand-written model lean/P2P/Model/Cells.lean tied to cells.py by differential execution on random operation sequences",
    "Python int() truncation of a float is supplied to the model's integer key arithmetic by the driver (Float truncation)",
    "the end-to-end claim (callers keep the cell list in step with coordinate changes) is monitored on real runs, not proved for all structures",
]
ASSUMPTIONS = ["cell sizes 2 and 5 as used by the code"]


class StubAtom:
    """the attributes of structures.Atom a cell list may touch (coordinates, cell, identification)"""

    __slots__ = ("x", "y", "z", "cell", "id", "name", "res_name", "res_seq", "chain_id", "residue", "serial", "added", "element")

    def __init__(self, i):
        self.id = i
        self.x = self.y = self.z = 0.0
        self.cell = None
        self.name = f"X{i}"
        self.res_name, self.res_seq, self.chain_id, self.residue, self.serial, self.added, self.element = "STB", i, "A", None, i, 0, "X"

    @property
    def coords(self):
        return [self.x, self.y, self.z]

    def __str__(self):
        return f"stub {self.id}"


def gen_coord(rng, size):
    r = rng.random()
    if r < 0.25:
        return float(rng.choice([0, size, -size, 2 * size, -2 * size, 1, -1, 3 * size]))
    if r < 0.4:
        b = float(rng.choice([0, size, -size, 2 * size, -2 * size]))
        return b + rng.choice([1e-9, -1e-9, 1e-12, -1e-12, 0.999999, -0.999999])
    if r < 0.5:
        return rng.choice([-0.0, 0.5, -0.5, 1e5 + 0.25, -1e5 - 0.25, 99999.999, -99999.999])
    return rng.uniform(-3 * size - 1, 3 * size + 1)


def random_history(rng, size, protocol: bool, n_atoms, n_ops):
    """list of ops: ('s', id, (x,y,z)) ('a', id) ('r', id) ('n', id) ('k', id)"""
    ops = []
    registered = set()
    placed = set()
    for i in range(n_atoms):
        ops.append(("s", i, tuple(gen_coord(rng, size) for _ in range(3))))
        placed.add(i)
        if protocol or rng.random() < 0.8:
            ops.append(("a", i))
            registered.add(i)
    for _ in range(n_ops):
        i = rng.randrange(n_atoms)
        r = rng.random()
        if r < 0.35:
            ops.append(("n", i))
        elif r < 0.4:
            ops.append(("k", i))
        elif protocol:
            if r < 0.75:  # move = remove; set; add
                if i in registered:
                    ops.append(("r", i))
                ops.append(("s", i, tuple(gen_coord(rng, size) for _ in range(3))))
                ops.append(("a", i))
                registered.add(i)
            elif r < 0.9:
                if i in registered:
                    ops.append(("r", i))
                    registered.discard(i)
            else:
                if i not in registered:
                    ops.append(("a", i))
                    registered.add(i)
        else:
            op = rng.choice(["s", "a", "r"])
            ops.append((op, i, tuple(gen_coord(rng, size) for _ in range(3))) if op == "s" else (op, i))
    return ops


def run_real(size, ops, n_atoms):
    from pdb2pqr import cells

    c = cells.Cells(size)
    atoms = [StubAtom(i) for i in range(n_atoms)]
    out = []
    dead = False
    for op in ops:
        if dead:
            out.append("dead")
            continue
        a = atoms[op[1]]
        if op[0] == "s":
            a.x, a.y, a.z = op[2]
            out.append("ok")
        elif op[0] == "a":
            c.add_cell(a)
            out.append("ok")
        elif op[0] == "r":
            try:
                c.remove_cell(a)
                out.append("ok")
            except ValueError:
                out.append("ValueError")
                dead = True
        elif op[0] == "n":
            out.append(",".join(str(b.id) for b in c.get_near_cells(a)))
        elif op[0] == "k":
            out.append("None" if a.cell is None else ",".join(str(v) for v in a.cell))
    return out, atoms, c


def enc_ops(ops):
    parts = []
    for op in ops:
        if op[0] == "s":
            parts.append(f"s{op[1]}:{','.join(bits(v) for v in op[2])}")
        else:
            parts.append(f"{op[0]}{op[1]}")
    return ";".join(parts)


def tie_histories(ctx: Ctx, n):
    rng = ctx.rng
    for hi in range(n):
        size = rng.choice([2, 5])
        protocol = rng.random() < 0.6
        na = rng.choice([2, 4, 8, 20])
        ops = random_history(rng, size, protocol, na, rng.choice([10, 40, 120]))
        real, atoms, cobj = run_real(size, ops, na)
        ctx.evaluations += 1
        ctx.distinct.add(("history", size, protocol, na, len(ops) // 40))
        ctx.count("histories", "protocol" if protocol else "free")
        if ctx.driver.available():
            ans = ctx.driver.ask([f"cells.run\t{size}\t{enc_ops(ops)}"])[0].split(";")
            if ans != real:
                k = next((i for i, (a, b) in enumerate(zip(ans, real)) if a != b), min(len(ans), len(real)))
                ctx.disagree("cells.Cells (operation sequence)", {"size": size, "ops": ops[: k + 1][-12:], "first_difference_at": k}, str(ans[k : k + 1]), str(real[k : k + 1]))
        if hi < 1:
            ctx.sample({"size": size, "protocol": protocol, "ops": [list(o) for o in ops[:12]], "replies": real[:12]})
        if protocol:
            # oracle on the final state: every registered atom sees all atoms within `size`
            # (registered according to the operations issued, not according to what the cell list recorded)
            regset = set()
            for op in ops:
                if op[0] == "a":
                    regset.add(op[1])
                elif op[0] == "r":
                    regset.discard(op[1])
            reg = [a for a in atoms if a.id in regset]
            for a in reg:
                got = {b.id for b in cobj.get_near_cells(a) if math.dist((a.x, a.y, a.z), (b.x, b.y, b.z)) < size}
                want = {b.id for b in reg if b is not a and math.dist((a.x, a.y, a.z), (b.x, b.y, b.z)) < size}
                near = [b.id for b in cobj.get_near_cells(a) if math.dist((a.x, a.y, a.z), (b.x, b.y, b.z)) < size]
                if got == want and len(near) != len(set(near)):
                    # a brute-force search lists every neighbour once
                    twice = sorted({i for i in near if near.count(i) > 1})
                    ctx.violate({"kind": "data-structure", "size": size, "what": "twice"}, f"after a protocol-obeying history atom {a.id} gets neighbours {twice} more than once", {"size": size, "ops": [list(o) for o in ops]})
                    break
                if got != want:
                    ctx.violate({"kind": "data-structure", "size": size, "what": "lost" if want - got else "extra"}, f"after a protocol-obeying history atom {a.id} at {(a.x, a.y, a.z)} sees {sorted(got)}, brute force {sorted(want)}", {"size": size, "ops": [list(o) for o in ops]})
                    break


# ------------------------------------------------------------------ monitor on real runs


class Monitor:
    def __init__(self, every=1):
        self.every = every
        self.queries = 0
        self.checked = 0
        self.problems = {}  # signature tuple -> example
        self.last_move = {}  # id(atom) -> site of last coordinate write while registered
        self.last_unreg = {}
        self.removed_site = {}
        self.good_witness = set()
        self.cutoff_checked = 0  # queries whose caller has a distance filter of its own
        self.cutoff_over = 0  # ... and that filter reaches further than the cell size of the list queried
        self.cutoffs = {}  # code object -> ("literal", value) | ("bump-radii", (hydrogen, heavy)) | None
        self.cutoff_seen = {}  # caller -> (largest cutoff applied, cell size)

    def caller_frame(self, depth=2):
        """the pdb2pqr frame that issued the neighbour query (same walk as site())"""
        f = sys._getframe(depth)
        while f is not None:
            q = getattr(f.f_code, "co_qualname", f.f_code.co_name)
            fn = f.f_code.co_filename
            if "pdb2pqr" in fn and not q.startswith(("Cells.", "Atom.__setattr__")) and "harness" not in fn:
                return f
            f = f.f_back
        return None

    def caller_filter(self, frame):
        """the distance the CALLER filters the returned atoms with, read from the caller's source text and the
        constants of its module (never from the cell list): `dist < 4.3` -> ("literal", 4.3);
        `cutoff = atom_size + other_size; dist < cutoff` -> ("bump-radii", (BUMP_HYDROGEN_SIZE, BUMP_HEAVY_SIZE));
        None when the caller has no distance filter between the query atom and a returned atom"""
        code = frame.f_code
        if code in self.cutoffs:
            return self.cutoffs[code]
        out = None
        try:
            src = inspect.getsource(code)
        except (OSError, TypeError):
            src = ""
        src = "\n".join(l.split("#", 1)[0] for l in src.splitlines())
        lits = [float(m) for m in re.findall(r"\bdist\s*<=?\s*([0-9]+(?:\.[0-9]*)?)(?![\w.])", src)]
        if lits and "get_near_cells" in src:
            out = ("literal", max(lits))
        elif re.search(r"\bcutoff\s*=\s*atom_size\s*\+\s*other_size", src) and re.search(r"\bdist\s*<=?\s*cutoff\b", src):
            g = frame.f_globals
            hs, vs = g.get("BUMP_HYDROGEN_SIZE"), g.get("BUMP_HEAVY_SIZE")
            if isinstance(hs, (int, float)) and isinstance(vs, (int, float)):
                out = ("bump-radii", (float(hs), float(vs)))
        self.cutoffs[code] = out
        return out

    def site(self, depth=2):
        f = sys._getframe(depth)
        while f is not None:
            q = getattr(f.f_code, "co_qualname", f.f_code.co_name)
            fn = f.f_code.co_filename
            if "pdb2pqr" in fn and not q.startswith(("Cells.", "Atom.__setattr__")) and "harness" not in fn:
                return q
            f = f.f_back
        return "?"

    def install(self):
        from pdb2pqr import cells, residue, structures

        mon = self
        self.orig = (cells.Cells.assign_cells, cells.Cells.get_near_cells, cells.Cells.remove_cell, structures.Atom.__setattr__ if "__setattr__" in structures.Atom.__dict__ else None, residue.Residue.remove_atom)
        o_assign, o_near, o_remove, _o_set, o_resremove = self.orig

        def assign(self_, bio):
            self_._bio = bio
            return o_assign(self_, bio)

        def near(self_, atom):
            res = o_near(self_, atom)
            mon.queries += 1
            if mon.queries % mon.every == 0 and getattr(self_, "_bio", None) is not None:
                mon.check(self_, atom, res)
            return res

        def remove(self_, atom):
            if atom.cell is not None:
                mon.last_unreg[id(atom)] = mon.site()
            return o_remove(self_, atom)

        def setattr_(self_, name, value):
            if name in ("x", "y", "z") and getattr(self_, "cell", None) is not None:
                try:
                    old = object.__getattribute__(self_, name)
                except AttributeError:
                    old = None
                if old is not None and old != value:
                    mon.last_move[id(self_)] = mon.site()
            object.__setattr__(self_, name, value)

        def resremove(self_, atomname):
            at = self_.map.get(atomname)
            if at is not None and getattr(at, "cell", None) is not None:
                mon.removed_site[id(at)] = mon.site()
            return o_resremove(self_, atomname)

        cells.Cells.assign_cells = assign
        cells.Cells.get_near_cells = near
        cells.Cells.remove_cell = remove
        structures.Atom.__setattr__ = setattr_
        residue.Residue.remove_atom = resremove
        # subclasses that override remove_atom keep their own; wrap the common ones too
        self.sub = []
        from pdb2pqr import aa, na

        for cls in (aa.Amino, na.Nucleic):
            if "remove_atom" in cls.__dict__:
                o = cls.__dict__["remove_atom"]

                def mk(o):
                    def f(self_, atomname):
                        at = self_.map.get(atomname)
                        if at is not None and getattr(at, "cell", None) is not None:
                            mon.removed_site[id(at)] = mon.site()
                        return o(self_, atomname)

                    return f

                setattr(cls, "remove_atom", mk(o))
                self.sub.append((cls, o))

    def uninstall(self):
        from pdb2pqr import cells, residue, structures

        cells.Cells.assign_cells, cells.Cells.get_near_cells, cells.Cells.remove_cell, o_set, residue.Residue.remove_atom = self.orig
        if o_set is None:
            del structures.Atom.__setattr__
        else:
            structures.Atom.__setattr__ = o_set
        for cls, o in self.sub:
            setattr(cls, "remove_atom", o)

    def check(self, cobj, atom, res):
        self.checked += 1
        size = cobj.cellsize
        live = cobj._bio.atoms
        live_ids = {id(a) for a in live}
        p = (atom.x, atom.y, atom.z)
        got = {id(b): b for b in res if math.dist(p, (b.x, b.y, b.z)) < size}
        want = {id(b): b for b in live if b is not atom and math.dist(p, (b.x, b.y, b.z)) < size}
        caller = self.site(3)
        if id(atom) not in live_ids or atom.cell is None:
            return  # a query for an atom that is not (any more) part of the structure / not registered
        def key_of(a):
            def c(v):
                return (int(v) - 1) // size * size if v < 0 else int(v) // size * size

            return (c(a.x), c(a.y), c(a.z))

        def cause_of(k, b):
            if b.cell is None:
                return ("unregistered", self.last_unreg.get(k, "never-added"))
            if b.cell != key_of(b):
                return ("stale", self.last_move.get(k, "cell attribute shared with another cell list"))
            if atom.cell != key_of(atom):
                return ("query-atom-stale", self.last_move.get(id(atom), "cell attribute shared with another cell list"))
            return ("registered-in-wrong-list", "?")

        for k, b in want.items():
            if k not in got:
                cause = cause_of(k, b)
                sig = ("lost", size, cause[0], cause[1])
                self.problems.setdefault(sig, f"query for {atom.residue} {atom.name} (from {caller}) misses {b.residue} {b.name} at {math.dist(p, (b.x, b.y, b.z)):.2f} A: {cause[0]} since {cause[1]}")
        # the goal clause at the caller: after the CALLER's distance filter the result equals brute force
        frame = self.caller_frame(3)
        filt = self.caller_filter(frame) if frame is not None else None
        if filt is not None:
            self.cutoff_checked += 1
            if filt[0] == "literal":
                def cut_of(b, _c=filt[1]):
                    return _c
                reach = filt[1]
            else:
                hs, vs = filt[1]
                def radius(a):
                    return hs if getattr(a, "is_hydrogen", False) else vs
                def cut_of(b, _ra=radius(atom)):
                    return _ra + radius(b)
                reach = radius(atom) + max(hs, vs)
            prev = self.cutoff_seen.get(caller, (0.0, size))
            self.cutoff_seen[caller] = (max(reach, prev[0]), min(size, prev[1]))
            if reach > size:
                self.cutoff_over += 1
                resids = {id(b) for b in res}
                ka = key_of(atom)
                for b in live:
                    if b is atom or id(b) in resids:
                        continue
                    d = math.dist(p, (b.x, b.y, b.z))
                    c = cut_of(b)
                    if d < size or not d < c:
                        continue  # closer than the cell size: reported above
                    kb = key_of(b)
                    if all(abs(ka[i] - kb[i]) <= size for i in range(3)):
                        # a list of this cell size that is in step with the coordinates returns b: the list is out of step
                        cause = cause_of(id(b), b)
                        sig = ("lost", size, cause[0], cause[1])
                        self.problems.setdefault(sig, f"query for {atom.residue} {atom.name} (from {caller}) misses {b.residue} {b.name} at {d:.2f} A: {cause[0]} since {cause[1]}")
                    else:
                        sig = ("cutoff-exceeds-cell-size", size, f"caller keeps atoms closer than {c:g} A, cell size {size:g} A", caller)
                        # witness: prefer a lost atom the detection could pair with (N/O of another residue) over any lost atom
                        good = b.name[:1] in ("N", "O") and b.residue is not atom.residue
                        if sig in self.problems and not (good and sig not in self.good_witness):
                            continue
                        if good:
                            self.good_witness.add(sig)
                        self.problems[sig] = (
                            f"query for {atom.residue} {atom.name} (from {caller}, cell size {size:g} A) misses {b.residue} {b.name} at {d:.2f} A although {caller} keeps every atom closer than {c:g} A: "
                            f"{b.name} lies in cell {kb}, outside the 27 cells around {ka}"
                        )
        inrange = [id(b) for b in res if math.dist(p, (b.x, b.y, b.z)) < size]
        if len(inrange) != len(set(inrange)):
            k = next(i for i in inrange if inrange.count(i) > 1)
            b = got[k]
            sig = ("twice", size, "filed-in-two-cells", self.last_move.get(k, self.last_unreg.get(k, "?")))
            self.problems.setdefault(sig, f"query for {atom.residue} {atom.name} (from {caller}) returns {b.residue} {b.name} {inrange.count(k)} times: it is filed in more than one cell (last moved in {sig[3]})")
        for k, b in got.items():
            if k not in live_ids:
                sig = ("ghost", size, "removed-without-remove_cell", self.removed_site.get(k, "?"))
                self.problems.setdefault(sig, f"query for {atom.residue} {atom.name} (from {caller}) returns {b.name}, which is no longer in the structure (removed in {self.removed_site.get(k, '?')})")


def monitor_runs(ctx: Ctx, n, seen=None):
    rng = ctx.rng
    seen = set() if seen is None else seen
    for ci in range(n):
        # packed fragments provoke debumping, flips and H-bond optimisation
        must = rng.choice(["ASN", "GLN", "HIS", "SER", "THR", "TYR", "ASP", "GLU", None, None])
        _f, res = G.window(rng, rng.choice([4, 6, 8, 12]), must_have=must)
        G.set_chain(res, "A", 1)
        c = G.centroid(res)
        waters = [G.water(rng, "A", 900 + i, c, 9.0) for i in range(rng.randint(0, 6))]
        if ci % 3 == 0:
            # a crowd of waters packed against one long side chain: the debumping scan of a torsion then often goes
            # the full circle without removing the clash and falls back to the best angle it saw
            from props.c04 import bump_water

            longs = [i for i, rr in enumerate(res) if rr[0].resn in ("LEU", "LYS", "ARG", "MET", "GLN", "GLU", "ILE", "PHE", "TYR", "ASN")]
            if longs:
                ti = rng.choice(longs)
                packed = []
                for k in range(rng.choice([6, 9])):
                    w = bump_water(rng, res + [[a for ww in packed for a in ww]] if packed else res, ti, 950 + k)
                    if w:
                        packed.append(w)
                waters += packed
                ctx.count("monitored-runs", "with a crowded side chain")
        if rng.random() < 0.3:
            from props.c01 import STATE_NAMES

            for rr in res:
                alts = STATE_NAMES.get(rr[0].resn)
                if alts and rng.random() < 0.6:
                    nm = rng.choice(alts)
                    for a in rr:
                        a.resn = nm
        text = G.to_pdb([res], waters)
        ff = rng.choice(["AMBER", "PARSE", "CHARMM", "SWANSON", "TYL06", "PEOEPB"])
        opts = [f"--ff={ff}", "--whitespace"] + (["--nodebump"] if rng.random() < 0.15 else []) + (["--noopt"] if rng.random() < 0.15 else [])
        mon = Monitor()
        mon.install()
        try:
            r = G.run_pipeline(text, opts)
        finally:
            mon.uninstall()
        ctx.evaluations += 1
        ctx.distinct.add(("run", must, len(res), len(waters) > 0))
        ctx.count("monitored-runs", ("water-only optimisation (--noopt)" if "--noopt" in opts else "full optimisation") + (", with waters" if waters else ", no waters"))
        report_monitor(ctx, mon, r, text, opts, seen)


def report_monitor(ctx: Ctx, mon, r, text, opts, seen):
    ctx.count("monitored-runs", r.status)
    ctx.count("queries", "total", mon.queries)
    ctx.count("queries", "checked", mon.checked)
    ctx.count("queries", "compared at the caller's own cutoff", mon.cutoff_checked)
    ctx.count("queries", "caller's cutoff beyond the cell size", mon.cutoff_over)
    for who, (reach, size) in mon.cutoff_seen.items():
        ctx.count("caller cutoffs", f"{who}: keeps < {reach:g} A, smallest cell size queried {size:g} A")
    for sig, msg in mon.problems.items():
        s = {"kind": sig[0], "cause": sig[2], "site": sig[3]}
        k = tuple(s.items())
        if k in seen:
            continue
        seen.add(k)
        ctx.violate(s, msg, {"pdb": text, "options": opts})
        ctx.sample({"signature": s, "message": msg}, limit=10)


def partner_water(rng, atoms, resseq):
    """a water oxygen in hydrogen-bond range (2.6-4.2 A) of a donor/acceptor (N/O of the fragment or another water),
    not closer than 2.4 A to anything; None when no place is found"""
    polar = [a for a in atoms if a.name[:1] in ("N", "O")]
    if not polar:
        return None
    for _ in range(200):
        x = rng.choice(polar)
        v = [rng.gauss(0, 1) for _ in range(3)]
        n = math.sqrt(sum(c * c for c in v)) or 1.0
        d = rng.uniform(2.6, 4.2)
        p = [x.x + v[0] / n * d, x.y + v[1] / n * d, x.z + v[2] / n * d]
        if min(math.dist(p, (a.x, a.y, a.z)) for a in atoms) >= 2.4:
            l = f"HETATM    1  O   HOH A{resseq:4d}    {p[0]:8.3f}{p[1]:8.3f}{p[2]:8.3f}  1.00 20.00           O"
            return [G.Atom(l)]
    return None


def monitor_water_runs(ctx: Ctx, n, seen=None):
    """the hydrogen-bond detection of the optimisation stage on structures WITH waters, on both ways into it:
    water-only optimisation (--noopt -> initialize_wat_optimization) and full optimisation (default options);
    every water has a donor/acceptor or another water between 2.6 and 4.2 A, i.e. inside the distance the
    detection keeps and mostly outside the query atom's own cell"""
    rng = ctx.rng
    seen = set() if seen is None else seen
    for ci in range(n):
        must = rng.choice(["ASN", "GLN", "HIS", "SER", "THR", "TYR", "ASP", "GLU", "LYS", "ARG", None])
        _f, res = G.window(rng, rng.choice([3, 5, 8]), must_have=must)
        G.set_chain(res, "A", 1)
        atoms = [a for rr in res for a in rr]
        waters = []
        for k in range(rng.choice([3, 6, 10])):
            w = partner_water(rng, atoms + [a for ww in waters for a in ww], 800 + k)
            if w:
                waters.append(w)
        text = G.to_pdb([res], waters)
        ff = rng.choice(["AMBER", "PARSE", "CHARMM", "SWANSON", "TYL06", "PEOEPB"])
        path = "water-only optimisation (--noopt)" if ci % 2 == 0 else "full optimisation"
        opts = [f"--ff={ff}", "--whitespace"] + (["--noopt"] if ci % 2 == 0 else []) + (["--nodebump"] if rng.random() < 0.2 else [])
        mon = Monitor()
        mon.install()
        try:
            r = G.run_pipeline(text, opts)
        finally:
            mon.uninstall()
        ctx.evaluations += 1
        ctx.count("monitored-runs", f"waters with partners in hydrogen-bond range, {path}")
        ctx.count("waters in hydrogen-bond range per run", "3+" if len(waters) >= 3 else str(len(waters)))
        ctx.distinct.add(("water-run", must, len(res), len(waters), ci % 2))
        report_monitor(ctx, mon, r, text, opts, seen)


def run(ctx: Ctx):
    ctx.extra["rule"] = (
        "random operation sequences on cells.Cells (2-20 atoms, 10-120 operations, sizes 2 and 5, coordinates on and around cell boundaries, zero, negative, +-1e5; protocol-obeying and free sequences); "
        "real pipeline runs of packed windows (4-12 residues + waters) with every neighbour query compared with brute force (at the cell size, and at the calling function's own distance filter where it has one); "
        "real runs of windows (3-8 residues) with 3-10 waters placed in hydrogen-bond range of donors/acceptors, alternately with --noopt (water-only optimisation) and default options; a case is (kind, size, protocol, atoms, length class) / (forced residue, size, waters); distinct counts distinct tuples"
    )
    tie_histories(ctx, ctx.scale(300, 20000))
    seen = set()
    monitor_runs(ctx, ctx.scale(25, 1200), seen)
    monitor_water_runs(ctx, ctx.scale(8, 300), seen)


def replay(ctx: Ctx, data: dict) -> bool:
    rp = data.get("replay", data)
    if "pdb" in rp:
        mon = Monitor()
        mon.install()
        try:
            r = G.run_pipeline(rp["pdb"], rp["options"])
        finally:
            mon.uninstall()
        print("status:", r.status, "queries:", mon.queries)
        for sig, msg in mon.problems.items():
            print(sig, msg)
        print("caller cutoffs (largest distance kept, smallest cell size queried):", mon.cutoff_seen)
        want = data.get("signature")
        if isinstance(want, dict) and want:
            return any({"kind": sig[0], "cause": sig[2], "site": sig[3]} == want for sig in mon.problems)
        return bool(mon.problems)
    return False
