"""C04 — input coordinates are preserved; only rigid side-chain rotations move atoms.

Tie: (1) the names-level model (Model/Rigid.lean over the regenerated topology) against the real
`refdistance`, `get_moveable_names`, `residue.reference` at every observed `set_dihedral_angle`
call, plus the model's own decidable `RigidCond` evaluated on the variant actually met (the
kernel-checked table covers the variants listed in Props/C04; whether a met variant is literally
in the table is reported); (2) the coordinate part against `geom.setdih` of the Float model;
(3) the regenerated writer list (gen/coordflow.py) against a run-time write monitor on
`Atom.x/y/z`. Oracle: final against input coordinates of every input heavy atom (by object
identity, flip copies standing for their originals), all bond lengths and 1-3 distances among
them, the SG-SG distance of bridged cysteines, and no motion at all under the no-motion options."""

from __future__ import annotations

import math

import gen_struct as G
from core import Ctx, Driver, hexs, unhexs
from props import c13
from props.c15 import decvs, encvs
from props.c17 import bits
from props.rigidmon import Monitor, dist

import gen.coordflow as gencoordflow
import gen.mainflow as genmainflow

GENERATORS = (gencoordflow.generate, genmainflow.generate)
EXTRA_TARGETS = ()
TRUSTED_BASE = [
    "Lean 4.33.0 kernel; axioms ⊆ {propext, Classical.choice, Quot.sound}",
    "hand-written model lean/P2P/Model/Rigid.lean (rank from CA, moved set, set_dihedral_angle on a residue) over the regenerated topology, tied to biomolecule.set_reference_distance / residue.get_moveable_names / debump.set_dihedral_angle by comparison at every observed torsion change",
    "translators gen/topology.py (AA.xml, PATCHES.xml), gen/coordflow.py (AST: who assigns coordinates, over-approximate call graph by simple names; getattr(structures, type_) resolved through its literal guard), gen/mainflow.py (option guards of main.py), regenerated every run",
    "the kernel-checked table covers 33 base definitions x 9 terminus-patch combinations x {all atoms, heavy atoms only}; variants met at run time outside it (PEPTIDE and titration patches applied at run time, partially built residues) are evaluated by the compiled model on every observed call, not by the kernel",
    "theorems are over the reals: floating-point rounding of the rotation (observed <= 1e-12 A) is not proved",
    "that the hydrogen-placement writers (optimize.py try_*, Alcoholic/Water.finalize, pka_switchstate) touch only hydrogens and lone pairs is checked by the run-time monitor, not proved",
]
ASSUMPTIONS = ["amino-acid residues with a reference definition; torsion axis of non-zero length"]

FIXED = ("N", "CA", "C", "O", "OXT")
NO_MOTION = (["--clean"], ["--assign-only"], ["--nodebump", "--noopt"])
_static = None


def static_writers():
    global _static
    if _static is None:
        fns, _ = gencoordflow.collect()
        _static = {f["name"] for f in fns if f["writes"]} | {"create_atom"}
    return _static


def bump_water(rng, res, target_idx, resseq=900):
    r = res[target_idx]
    side = [a for a in r if a.name not in ("N", "CA", "C", "O", "OXT")]
    if not side:
        return None
    x = rng.choice(side)
    allat = [a for rr in res for a in rr]
    for _ in range(200):
        v = [rng.gauss(0, 1) for _ in range(3)]
        n = math.sqrt(sum(c * c for c in v))
        d = rng.uniform(1.5, 2.4)
        p = [x.x + v[0] / n * d, x.y + v[1] / n * d, x.z + v[2] / n * d]
        if min(math.dist(p, (a.x, a.y, a.z)) for a in allat) >= 1.45:
            l = f"HETATM    1  O   HOH A{resseq:4d}    {p[0]:8.3f}{p[1]:8.3f}{p[2]:8.3f}  1.00 20.00           O"
            return [G.Atom(l)]
    return None


def gen_case(rng, force=None, kind=None, offslot=False, backbone=False):
    """-> (pdb text, options, features)"""
    feats = {}
    kind = kind or rng.choice(["bump", "bump", "bump", "plain", "ss", "missing", "gap", "partial-h"])
    if kind == "ss":
        text, opts, f = c13.gen_case(rng)
        opts = [o for o in opts if o not in ("--nodebump", "--noopt", "--whitespace", "--keep-chain")]
        feats["kind"] = "ss-" + "-".join(sorted(x for x in f if x in ("bonded", "third", "free", "far", "edge-in", "edge-out")))
        feats["target"] = "CYS"
        feats["pos"] = "?"
    else:
        target = force or rng.choice(G.AA3)
        n = (rng.choice([1, 2, 3, 4, 6]) if not backbone else rng.choice([3, 4, 6])) if kind != "gap" else rng.choice([5, 6, 8])
        _f, res = G.window(rng, n, must_have=target)
        G.set_chain(res, "A", rng.choice([1, 17, 250]))
        if kind == "gap" and len(res) >= 5:
            # residues missing in the middle of a chain: same chain, numbering kept, no TER
            keep_target = [i for i, r in enumerate(res) if r[0].resn == target]
            a = rng.randint(1, len(res) - 3)
            b = a + rng.randint(1, min(3, len(res) - 2 - a))
            cut = [i for i in range(a, b) if i not in keep_target[:1]]
            if cut and rng.random() < 0.35 and sum(len(x) for x in res) >= 40:
                # the residue before the gap lacks its C, or the residue after it lacks its N
                if rng.random() < 0.5 and min(cut) - 1 >= 0 and res[min(cut) - 1][0].resn != "PRO":
                    res[min(cut) - 1] = [x for x in res[min(cut) - 1] if x.name != "C"]
                    kind = "gap+missing-C-before-it"
                elif max(cut) + 1 < len(res) and res[max(cut) + 1][0].resn != "PRO":
                    res[max(cut) + 1] = [x for x in res[max(cut) + 1] if x.name != "N"]
                    kind = "gap+missing-N-after-it"
            res = [r for i, r in enumerate(res) if i not in cut]
        idx = [i for i, r in enumerate(res) if r[0].resn == target]
        ti = rng.choice(idx)
        feats["target"] = target
        feats["pos"] = "NC" if len(res) == 1 else ("N" if ti == 0 else ("C" if ti == len(res) - 1 else "mid"))
        feats["kind"] = kind
        waters = []
        if kind == "bump":
            # one or two waters; sometimes a crowd of them, so that debumping goes several rounds over the torsions
            nw = rng.choice([1, 1, 2, 6, 9])
            for k in range(nw):
                w = bump_water(rng, res + [[a for ww in waters for a in ww]] if waters else res, ti, 900 + k)
                if w:
                    waters.append(w)
            if nw >= 6:
                feats["kind"] = "crowd"
        if kind == "missing":
            # delete the outermost side-chain atoms of the target so that repair_heavy rebuilds them
            r = res[ti]
            side = [a for a in r if a.name not in ("N", "CA", "C", "O", "OXT", "CB")]
            backbone_instead = len(res) >= 2 and sum(len(x) for x in res) >= 12 and (backbone or rng.random() < 0.5)
            if side and not backbone_instead:
                if len(side) >= 2 and rng.random() < 0.3:
                    # a single atom missing from the MIDDLE of the side chain (its outer neighbours are there)
                    drop = {rng.choice(side[:-1]).name}
                    feats["kind"] = "missing-middle"
                else:
                    drop = {a.name for a in side[-rng.randint(1, min(3, len(side))) :]}
                res[ti] = [a for a in r if a.name not in drop]
            if backbone_instead:
                # a missing BACKBONE atom: the carbonyl O of a residue that is not the last one is rebuilt from
                # atoms of its own residue and the N of the next one (template atom N+1); the amide N of a residue
                # that is not the first one from the previous residue's C (C-1)
                which = rng.choice(["O", "O", "N"])
                cand = [i for i in range(len(res)) if (i < len(res) - 1 if which == "O" else i > 0) and res[i][0].resn != "PRO"]
                if cand:
                    bi = rng.choice(cand)
                    res[bi] = [a for a in res[bi] if a.name != which]
                    feats["kind"] = "missing-backbone-" + which
            w = bump_water(rng, res, ti)
            if w and rng.random() < 0.5:
                waters.append(w)
        if rng.random() < 0.25:
            # the atoms of a residue need not come in the canonical outward order
            how = rng.choice(["sorted", "shuffled", "reversed"])
            for k, r in enumerate(res):
                if how == "sorted":
                    res[k] = sorted(r, key=lambda a: a.name)
                elif how == "reversed":
                    res[k] = list(reversed(r))
                else:
                    r2 = list(r)
                    rng.shuffle(r2)
                    res[k] = r2
            feats["kind"] += "+atoms-" + how
        text = G.to_pdb([res], waters)
        opts = ["--ff=" + rng.choice(["AMBER", "CHARMM", "PARSE", "SWANSON", "TYL06", "PEOEPB"])]
    if kind == "partial-h":
        # an input that carries hydrogens, some of them missing (one hydrogen of a methyl / ammonium group,
        # a methylene hydrogen, a backbone H): the present ones are kept, the missing ones are added
        pre = G.run_pipeline(text, ["--ff=AMBER", "--pdb-output=@DIR@/out.pdb"])
        hyd = pre.extra_files.get("out.pdb") if pre.status == "ok" else None
        if hyd:
            lines = hyd.splitlines()
            hidx = [i for i, l in enumerate(lines) if l.startswith(("ATOM", "HETATM")) and l[12:16].strip().startswith("H") and l[17:20] not in ("HOH", "WAT")]
            drop = set(rng.sample(hidx, max(1, len(hidx) // rng.choice([4, 8, 16])))) if hidx else set()
            # make sure a group of three loses exactly one member, at a random slot
            groups = {}
            for i in hidx:
                l = lines[i]
                groups.setdefault((l[21:27], l[12:16].strip()[:-1]), []).append(i)
            threes = [g for g in groups.values() if len(g) == 3]
            if threes:
                g = rng.choice(threes)
                drop -= set(g)
                gone = rng.choice(g)
                drop.add(gone)
                if offslot or rng.random() < 0.6:
                    # hydrogens that do not come from pdb2pqr are not exactly on the ideal positions: turn one of
                    # the two remaining members of the group about the bond it hangs on (parent - its heavy neighbour)
                    keep = [i for i in g if i != gone]
                    hi = rng.choice(keep)

                    def xyz(l):
                        return [float(l[30:38]), float(l[38:46]), float(l[46:54])]

                    same = [l for l in lines if l.startswith(("ATOM", "HETATM")) and l[21:27] == lines[hi][21:27] and not l[12:16].strip().startswith("H")]
                    hp = xyz(lines[hi])
                    parent = min(same, key=lambda l: math.dist(xyz(l), hp), default=None)
                    nxt = [l for l in same if l is not parent and parent is not None and math.dist(xyz(l), xyz(parent)) < 1.9]
                    if parent is not None and math.dist(xyz(parent), hp) < 1.3 and len(nxt) == 1:
                        b, n0 = xyz(parent), xyz(nxt[0])
                        ax = [b[k] - n0[k] for k in range(3)]
                        nn = math.sqrt(sum(c * c for c in ax))
                        ax = [c / nn for c in ax]
                        v = [hp[k] - b[k] for k in range(3)]
                        t = math.radians(rng.choice([-1, 1]) * rng.choice([8.0, 12.0, 20.0, 35.0, 60.0, 90.0] if offslot else [3.0, 6.0, 8.0, 12.0, 20.0, 35.0, 60.0, 90.0]))
                        cr = [ax[1] * v[2] - ax[2] * v[1], ax[2] * v[0] - ax[0] * v[2], ax[0] * v[1] - ax[1] * v[0]]
                        dt = sum(ax[k] * v[k] for k in range(3))
                        new = [b[k] + v[k] * math.cos(t) + cr[k] * math.sin(t) + ax[k] * dt * (1 - math.cos(t)) for k in range(3)]
                        lines[hi] = lines[hi][:30] + f"{new[0]:8.3f}{new[1]:8.3f}{new[2]:8.3f}" + lines[hi][54:]
                        feats["kind"] += "+off-slot-hydrogen"
            text = "\n".join(l for i, l in enumerate(lines) if i not in drop) + "\n"
        else:
            feats["kind"] = "plain"
    mode = rng.choice(["default", "default", "default", "nodebump", "noopt", "no-motion", "ph"])
    if mode == "nodebump":
        opts.append("--nodebump")
    elif mode == "noopt":
        opts.append("--noopt")
    elif mode == "no-motion":
        extra = rng.choice(NO_MOTION)
        if extra != ["--nodebump", "--noopt"] and rng.random() < 0.8:
            # --assign-only / --clean are meant for complete structures: hydrogenate first
            pre = G.run_pipeline(text, ["--ff=AMBER", "--pdb-output=@DIR@/out.pdb"])
            hyd = pre.extra_files.get("out.pdb") if pre.status == "ok" else None
            if hyd:
                text = hyd
                feats["kind"] += "+hydrogenated"
        opts += extra
    elif mode == "ph":
        opts += ["--titration-state-method=propka", f"--with-ph={rng.choice([2.0, 4.5, 7.0, 11.0, 13.0])}"]
    feats["mode"] = mode if mode != "no-motion" else "no-motion:" + " ".join(opts[1:])
    return text, opts, feats


def no_motion(opts):
    return "--clean" in opts or "--assign-only" in opts or ("--nodebump" in opts and "--noopt" in opts)


def position(res):
    n, c = bool(getattr(res, "is_n_term", 0)), bool(getattr(res, "is_c_term", 0))
    return "NC" if n and c else "N" if n else "C" if c else "mid"


def oracle(m: Monitor, bio, opts):
    """-> list of (signature, message)"""
    from pdb2pqr import aa

    out = []
    nomo = no_motion(opts)
    for res in bio.residues:
        reps = {}
        for f in res.atoms:
            L = m.logical(f)
            if getattr(L, "added", 0) == 0 and id(L) in m.init_coords and not m.init_names[id(L)].startswith("H") and m.init_coords[id(L)][0] is not None:
                reps[f.name] = (L, f)
        ini = {n: m.init_coords[id(L)] for n, (L, f) in reps.items()}
        fin = {n: tuple(f.coords) for n, (L, f) in reps.items()}
        moved = sorted(n for n in reps if dist(ini[n], fin[n]) > 1e-6)
        pos = position(res)
        if not moved:
            continue
        if nomo:
            out.append(({"kind": "moved-under-no-motion-options", "residue": res.name, "pos": pos}, f"{res} {moved} moved by up to {max(dist(ini[n], fin[n]) for n in moved):.4f} A with {opts}"))
            continue
        if not isinstance(res, aa.Amino) or getattr(res, "reference", None) is None:
            out.append(({"kind": "non-protein-atom-moved", "residue": res.name, "pos": pos}, f"{res} {moved} moved"))
            continue
        bad = [n for n in moved if n in FIXED]
        if bad:
            out.append(({"kind": "backbone-or-cap-moved", "residue": res.name, "pos": pos, "atom": bad[0]}, f"{res} {bad} moved by {dist(ini[bad[0]], fin[bad[0]]):.4f} A"))
        ref = res.reference.map
        done = False
        for v in reps:
            if v not in ref or done:
                continue
            nb = [u for u in ref[v].bonds if u in reps]
            for u in nb:
                if abs(dist(ini[u], ini[v]) - dist(fin[u], fin[v])) > 1e-6:
                    out.append(({"kind": "bond-length-changed", "residue": res.name, "pos": pos, "pair": "-".join(sorted((u, v)))}, f"{res} bond {u}-{v}: {dist(ini[u], ini[v]):.4f} -> {dist(fin[u], fin[v]):.4f} A"))
                    done = True
                    break
                for w in nb:
                    if u < w and abs(dist(ini[u], ini[w]) - dist(fin[u], fin[w])) > 1e-6:
                        out.append(({"kind": "bond-angle-changed", "residue": res.name, "pos": pos, "triple": f"{u}-{v}-{w}"}, f"{res} angle {u}-{v}-{w}: 1-3 distance {dist(ini[u], ini[w]):.4f} -> {dist(fin[u], fin[w]):.4f} A"))
                        done = True
                        break
                if done:
                    break
        # disulfide partner
        if isinstance(res, aa.CYS) and getattr(res, "ss_bonded", 0) and getattr(res, "ss_bonded_partner", None) is not None and "SG" in reps:
            p = res.ss_bonded_partner
            pres = getattr(p, "residue", None)
            if pres is not None:
                Lp = m.logical(p)
                if id(Lp) in m.init_coords:
                    d0 = dist(ini["SG"], m.init_coords[id(Lp)])
                    d1 = dist(fin["SG"], tuple(p.coords))
                    if abs(d0 - d1) > 1e-6:
                        out.append(({"kind": "disulfide-length-changed", "residue": res.name, "pos": pos}, f"{res} SG-SG {d0:.4f} -> {d1:.4f} A"))
    return out


def writer_tie(ctx: Ctx, m: Monitor):
    sw = static_writers()
    for caller, n in m.writers.items():
        ctx.count("coordinate-writers-seen", caller, n)
        if caller not in sw:
            ctx.disagree("coordinate writers (AST, Gen/CoordFlow) vs run-time monitor", {"caller": caller}, sorted(sw), f"{caller} wrote coordinates {n} times")
    heavy_writers = {}
    for a, caller in m.writes:
        if not a.added and not (a.name or "H").startswith("H"):
            heavy_writers[caller] = heavy_writers.get(caller, 0) + 1
    for caller, n in heavy_writers.items():
        ctx.count("writers-of-input-heavy-atoms", caller, n)
        if caller not in ("set_dihedral_angle", "rotate_tetrahedral"):
            ctx.disagree("writers of input heavy atoms", {"caller": caller}, ["set_dihedral_angle", "rotate_tetrahedral"], f"{caller} wrote an input heavy atom {n} times")


def pseudo(n):
    return n in ("N+1", "C-1")


def torsion_tie(ctx: Ctx, drv: Driver, m: Monitor, case_replay, seen_sig):
    recs = m.torsions
    if not recs:
        return
    # one rigid.check per distinct (base, patches, present, flags)
    keys = {}
    for r in recs:
        k = (r["base"], tuple(r["patches"]), tuple(r["present"]), r["is_n"], r["is_c"])
        keys.setdefault(k, None)
    klist = list(keys)
    reqs = ["\t".join(["rigid.check", hexs(k[0]), ",".join(hexs(p) for p in k[1]), ",".join(hexs(a) for a in k[2]), "1" if k[3] else "0", "1" if k[4] else "0"]) for k in klist]
    geo = ["\t".join(["geom.setdih", encvs([r["before"][n] for n in r["dihedral"]]), bits(r["angle"]), encvs([r["before"][n] for n in (r["moveable"] or [])])]) for r in recs if r["moveable"]]
    ans = drv.ask(reqs + geo)
    for k, a in zip(klist, ans[: len(reqs)]):
        keys[k] = a
    geo_ans = iter(ans[len(reqs) :])
    for r in recs:
        k = (r["base"], tuple(r["patches"]), tuple(r["present"]), r["is_n"], r["is_c"])
        a = keys[k]
        ctx.evaluations += 1
        ctx.count("torsion-callers", r["caller"])
        pivot = r["dihedral"][2]
        ctx.distinct.add(("torsion", r["base"], tuple(r["patches"]), " ".join(r["dihedral"])))
        parts = a.split("|")
        inp = {"base": r["base"], "patches": r["patches"], "dihedral": r["dihedral"], "present": r["present"]}
        if len(parts) != 6:
            ctx.disagree("rigid.check", inp, a, "real residue")
            continue
        atoms_s, dih_s, rd_s, mv_s, ok, intab = parts
        model_atoms = {}
        for item in atoms_s.split(","):
            n, b = item.split(":")
            model_atoms[unhexs(n)] = {unhexs(x) for x in b.split("+") if x}
        real_atoms = {n: {b for b in bs if not pseudo(b)} for n, bs in r["ref_atoms"].items() if not pseudo(n)}
        if model_atoms != real_atoms:
            diff = sorted(set(model_atoms) ^ set(real_atoms)) or [n for n in model_atoms if model_atoms[n] != real_atoms.get(n)][:3]
            ctx.disagree("run-time reference (applyAll over Gen/Topology) vs residue.reference", inp, f"differs at {diff}", "real reference")
            continue
        model_dih = [[unhexs(x) for x in d.split("+")] for d in dih_s.split(",") if d]
        if model_dih != [d.split() for d in r["ref_dihedrals"]]:
            ctx.disagree("torsion list of the run-time reference", inp, model_dih, r["ref_dihedrals"])
            continue
        model_rd = {}
        for item in rd_s.split(","):
            n, d = item.split(":")
            model_rd[unhexs(n)] = None if d == "-" else int(d)
        stale = 0
        for n, d in r["refdist"].items():
            if n not in real_atoms:
                continue
            if d == 0:
                stale += 1
                continue
            if model_rd.get(n) != d:
                ctx.disagree("refdistance", {**inp, "atom": n}, model_rd.get(n), d)
                break
        ctx.count("refdistance", "atoms-compared", len(r["refdist"]) - stale)
        di = r["ref_dihedrals"].index(" ".join(r["dihedral"]))
        mvs = mv_s.split(",")
        model_mv = None if mvs[di] == "-" else [unhexs(x) for x in mvs[di].split("+") if x]
        if model_mv != r["moveable"]:
            ctx.disagree("moveable set", inp, model_mv, r["moveable"])
            SEARCH.add((r["resname"], "NC" if r["is_n"] and r["is_c"] else "N" if r["is_n"] else "C" if r["is_c"] else "mid"))
            continue
        ctx.count("moved-set-size", len(model_mv or []))
        ctx.count("variant-in-kernel-table", "yes" if intab == "1" else "no")
        # geometry
        if r["moveable"]:
            g = decvs(next(geo_ans))
            for n, p in zip(r["moveable"], g):
                if dist(p, r["after"][n]) > 1e-9:
                    ctx.disagree("set_dihedral_angle coordinates (Float model)", {**inp, "atom": n}, p, r["after"][n])
                    break
        for n in r["present"]:
            if n not in (r["moveable"] or []) and n in r["after"] and r["after"][n] != r["before"][n]:
                ctx.disagree("atoms outside the moved set keep their coordinates", {**inp, "atom": n}, r["before"][n], r["after"][n])
                break
        # the decidable hypothesis of rigid_cond_preserves on the variant met; if it fails, look for
        # the concrete distance that changed
        if ok != "1":
            found = None
            for v in r["present"]:
                if v not in real_atoms:
                    continue
                nb = [u for u in real_atoms[v] if u in r["before"]]
                for u in nb:
                    for w in [v] + nb:
                        if u != w and w in r["after"] and u in r["after"] and abs(dist(r["before"][u], r["before"][w]) - dist(r["after"][u], r["after"][w])) > 1e-6:
                            found = (u, w)
                            break
                    if found:
                        break
                if found:
                    break
            heavy = found and not found[0].startswith("H") and not found[1].startswith("H")
            if found and heavy:
                sig = {"kind": "torsion-not-rigid", "residue": r["resname"], "dihedral": " ".join(r["dihedral"]), "pair": "-".join(sorted(found))}
                if tuple(sig.items()) not in seen_sig:
                    seen_sig.add(tuple(sig.items()))
                    ctx.violate(sig, f"{r['residue']} torsion {' '.join(r['dihedral'])}: distance {found[0]}-{found[1]} changes", case_replay)
            elif not found:
                ctx.disagree("RigidCond on the variant met at run time", inp, "variantOK = false", "no distance changed in this call")


SEARCH = set()  # (residue type, position) whose moved set disagreed with the model: searched for a failing input


def targeted_search(ctx: Ctx, seen_sig, budget=40):
    """the tie broke on the moved set: look for an input on which the final coordinates violate the property"""
    rng = ctx.rng
    for resname, pos in sorted(SEARCH):
        if resname not in G.AA3:
            continue
        tries = 0
        hit = False
        while tries < budget and not hit:
            tries += 1
            n = 1 if pos == "NC" else rng.choice([2, 3])
            _f, res = G.window(rng, n, must_have=resname)
            idx = [i for i, r in enumerate(res) if r[0].resn == resname]
            want = {"N": 0, "C": len(res) - 1, "NC": 0}.get(pos)
            if want is not None and want not in idx:
                continue
            ti = want if want is not None else idx[0]
            G.set_chain(res, "A", 1)
            waters = [w for w in (bump_water(rng, res, ti, 900 + k) for k in range(rng.choice([1, 2, 3]))) if w]
            if tries % 2 == 0:
                # the order of the atoms inside a residue is free in the input
                for k2, rr in enumerate(res):
                    r2 = list(rr)
                    rng.shuffle(r2)
                    res[k2] = r2 if tries % 4 == 0 else sorted(rr, key=lambda a: a.name)
            text = G.to_pdb([res], waters)
            opts = ["--ff=AMBER"]
            with Monitor(max_torsion_records=0) as m:
                r = G.run_pipeline(text, opts)
            ctx.evaluations += 1
            ctx.count("targeted-search-runs", f"{resname}@{pos}")
            if r.status != "ok":
                continue
            for sig, msg in oracle(m, r.biomolecule, opts):
                k = tuple(sorted(sig.items()))
                hit = True
                if k not in seen_sig:
                    seen_sig.add(k)
                    ctx.violate(sig, msg, {"pdb": text, "options": opts})


def check_case(ctx: Ctx, drv: Driver, text, opts, feats, seen_sig):
    with Monitor() as m:
        r = G.run_pipeline(text, opts)
    ctx.evaluations += 1
    ctx.count("status", r.status)
    ctx.count("case-kind", feats["kind"])
    ctx.count("mode", feats["mode"])
    ctx.count("target", f"{feats['target']}@{feats['pos']}")
    ctx.distinct.add((feats["kind"], feats["mode"], feats["target"], feats["pos"]))
    case_replay = {"pdb": text, "options": opts}
    if r.status != "ok":
        return
    ctx.count("torsion-calls-per-run", "0" if m.torsion_calls == 0 else "1-9" if m.torsion_calls < 10 else "10+")
    # how many times debumping switched torsion within one residue (a torsion used again after another one moved its axis)
    import itertools

    rounds = 0
    for _res, grp in itertools.groupby([t for t in m.torsions if t["caller"] == "debump_residue"], key=lambda t: id(t["residue"])):
        rounds = max(rounds, len([k for k, _ in itertools.groupby(t["dihedral"][2] for t in grp)]))
    ctx.count("debump-torsion-switches-per-residue", "0" if rounds == 0 else str(rounds) if rounds < 4 else "4+")
    writer_tie(ctx, m)
    torsion_tie(ctx, drv, m, case_replay, seen_sig)
    found = oracle(m, r.biomolecule, opts)
    ctx.count("oracle", "holds" if not found else found[0][0]["kind"])
    for sig, msg in found:
        k = tuple(sorted(sig.items()))
        if k not in seen_sig:
            seen_sig.add(k)
            ctx.violate(sig, msg, case_replay)
    moved_res = sum(1 for res in r.biomolecule.residues for f in res.atoms if id(m.logical(f)) in m.init_coords and not f.added and m.init_coords[id(f)][0] is not None and dist(m.init_coords[id(f)], f.coords) > 1e-6)
    ctx.count("input-heavy-atoms-moved-per-run", "0" if moved_res == 0 else "1-5" if moved_res < 6 else "6+")


def run(ctx: Ctx):
    G.quiet()
    rng = ctx.rng
    drv = Driver()
    ctx.extra["rule"] = (
        "peptide windows of 1-6 residues with each of the 20 residue types forced in turn at N-terminal, internal and C-terminal positions; a water packed against a side-chain atom of the target to force debumping; "
        "crowds of 6-9 waters around long side chains (several debump rounds over the torsions of one residue); missing outer side-chain atoms (repair); disulfide pairs from the C13 generator; options default / --nodebump / --noopt / --clean / --assign-only / --nodebump --noopt / PROPKA at five pH values; six force fields; "
        "a case is (kind, option mode, target residue type, position); distinct counts distinct tuples and distinct (definition, patches, torsion) triples met in set_dihedral_angle"
    )
    seen_sig = set()
    n = ctx.scale(70, 2500)
    for ci in range(n):
        force = G.AA3[ci % len(G.AA3)] if ci % 2 == 0 else None
        text, opts, feats = gen_case(rng, force)
        check_case(ctx, drv, text, opts, feats, seen_sig)
        if ci < 2:
            ctx.sample({"options": opts, "features": feats, "pdb_head": text.splitlines()[:3]})
    # every residue type once more with a water packed against its side chain and debumping switched on
    # (a torsion the topology should not offer — a ring closed through the backbone — shows only when that type bumps)
    for ci in range(ctx.scale(20, 200)):
        text, opts, feats = gen_case(rng, G.AA3[ci % len(G.AA3)], kind="bump")
        if "hydrogenated" in feats["kind"]:
            continue
        feats["mode"] = "default"
        check_case(ctx, drv, text, opts[:1], feats, seen_sig)
    # crowded long side chains: debumping goes several rounds over the torsions of one residue
    # (chi-1, chi-2, chi-1, chi-2 …), so a torsion is used again after another one has moved its axis
    for ci in range(ctx.scale(20, 250)):
        target = ["LEU", "LYS", "ARG", "MET", "GLN", "GLU", "ILE", "PHE", "TYR", "ASN"][ci % 10]
        _f, res = G.window(rng, rng.choice([3, 4]), must_have=target)
        G.set_chain(res, "A", 1)
        ti = next(i for i, r in enumerate(res) if r[0].resn == target)
        waters = []
        for k in range(rng.choice([6, 9])):
            w = bump_water(rng, res + [[a for ww in waters for a in ww]] if waters else res, ti, 900 + k)
            if w:
                waters.append(w)
        text = G.to_pdb([res], waters)
        opts = ["--ff=" + rng.choice(["AMBER", "PARSE", "CHARMM"])]
        feats = {"kind": "crowd-long-side-chain", "mode": "default", "target": target, "pos": "N" if ti == 0 else "C" if ti == len(res) - 1 else "mid"}
        check_case(ctx, drv, text, opts, feats, seen_sig)
    if SEARCH:
        targeted_search(ctx, seen_sig)


def replay(ctx: Ctx, data: dict) -> bool:
    G.quiet()
    rp = data.get("replay", data)
    with Monitor() as m:
        r = G.run_pipeline(rp["pdb"], rp["options"])
    if r.status != "ok":
        print("run status", r.status)
        return False
    found = oracle(m, r.biomolecule, rp["options"])
    for sig, msg in found:
        print(sig, msg)
    return bool(found)
