"""C05 — atoms added by pdb2pqr have template-consistent bonded geometry.

Tie: every observed placement goes through the Float model: quatfit.find_coordinates
(`geom.find`, also used to obtain the fitted rigid map T for the residual bound of
`placed_bond_le_residual`), Residue.rotate_tetrahedral (`rigid.tetra`),
make_atom_with_no_bonds (`rigid.nobonds`); the torsion part is shared with C04.
Oracle on the real run: (a) at creation, the theorem's inequality for every fit atom;
(b) on the returned biomolecule, for every added atom: bond length to each reference-bonded
neighbour against the template within the largest fit residual met in that residue, bond angles
within the angular distortion already present around the parent plus 8 degrees, no other atom of
the residue within 0.5 A; (c) at every observed torsion change, every bond length and 1-3
distance of the residue (hydrogens included) unchanged."""

from __future__ import annotations

import math

import gen_struct as G
from core import Ctx, Driver
from props import c04
from props.c15 import decv, decvs, encv, encvs
from props.c17 import bits
from props.rigidmon import Monitor, dist

import gen.coordflow as gencoordflow
import gen.mainflow as genmainflow

GENERATORS = (gencoordflow.generate, genmainflow.generate)
TRUSTED_BASE = [
    "Lean 4.33.0 kernel; axioms ⊆ {propext, Classical.choice, Quot.sound}",
    "hand-written models lean/P2P/Model/Geom.lean (find_coordinates; Float answers bit-compared with CPython in C15) and lean/P2P/Model/Rigid.lean (rotate_tetrahedral, make_atom_with_no_bonds, torsion changes), tied by differential execution on every placement observed in the runs",
    "which atoms each placement routine fits on (get_nearest_bonds, the branches of rebuild_tetrahedral and of optimize.py) is not modelled: the harness reads the actual arguments of every call from the run-time monitor",
    "theorems are over the reals; floating-point rounding is bounded on the observed calls only (1e-9)",
    "the final-state tolerances (largest fit residual of the residue; angular distortion + 8 degrees; 0.5 A) are the oracle's reading of 'within the distortion already present in the input'",
]
ASSUMPTIONS = ["residues with a reference definition (amino acids, nucleic acids, waters)", "non-degenerate fits (three non-collinear points, or two distinct points)"]


def angle(a, b, c):
    v1 = [a[i] - b[i] for i in range(3)]
    v2 = [c[i] - b[i] for i in range(3)]
    n1 = math.sqrt(sum(x * x for x in v1))
    n2 = math.sqrt(sum(x * x for x in v2))
    if n1 == 0 or n2 == 0:
        return float("nan")
    return math.degrees(math.acos(max(-1.0, min(1.0, sum(x * y for x, y in zip(v1, v2)) / (n1 * n2)))))


def position(res):
    n, c = bool(getattr(res, "is_n_term", 0)), bool(getattr(res, "is_c_term", 0))
    return "NC" if n and c else "N" if n else "C" if c else "mid"


def fit_checks(ctx: Ctx, drv: Driver, m: Monitor, cap=120):
    """(a): model tie + theorem instance for the observed fits. Returns residual per fit id."""
    fits = m.fits[:cap]
    reqs = []
    for f in fits:
        reqs.append(f"geom.find\t{encvs(f['refs'])}\t{encvs(f['defs'])}\t{encv(f['defatom'])}")
        for d in f["defs"]:
            reqs.append(f"geom.find\t{encvs(f['refs'])}\t{encvs(f['defs'])}\t{encv(d)}")
    ans = iter(drv.ask(reqs))
    out = []
    for f in fits:
        new = decv(next(ans))
        ctx.evaluations += 1
        ctx.count("fit-callers", f["caller"])
        ctx.count("fit-points", f["n"])
        timg = [decv(next(ans)) for _ in f["defs"]]
        if any(math.isnan(x) for x in new):
            continue
        if dist(new, f["out"]) > 1e-9:
            ctx.disagree("quatfit.find_coordinates (Float model)", {"refs": f["refs"], "defs": f["defs"], "atom": f["defatom"]}, new, f["out"])
            continue
        res = [dist(t, r) for t, r in zip(timg, f["refs"])]
        f["residuals"] = res
        for i, (r, d) in enumerate(zip(f["refs"], f["defs"])):
            lhs = abs(dist(f["out"], r) - dist(f["defatom"], d))
            if lhs > res[i] + 1e-9:
                out.append(({"kind": "fit-bound", "caller": f["caller"], "points": f["n"]}, f"placement by {f['caller']}: distance to fit atom {i} is off the template by {lhs:.6f} A, more than its fit residual {res[i]:.6f} A"))
                break
        ctx.count("fit-residual-A", "<0.01" if max(res) < 0.01 else "<0.05" if max(res) < 0.05 else "<0.15" if max(res) < 0.15 else ">=0.15")
    return out


def tetra_checks(ctx: Ctx, drv: Driver, m: Monitor, cap=80):
    recs = [t for t in m.tetra if t["moved"]][:cap]
    reqs = [f"rigid.tetra\t{encv(t['a1'])}\t{encv(t['a2'])}\t{bits(t['angle'])}\t{encvs(t['before'])}" for t in recs]
    reqs += [f"rigid.nobonds\t{encv(a)}\t{encv(c)}" for a, c, _n in m.nobonds[:cap]]
    ans = drv.ask(reqs)
    out = []
    for t, a in zip(recs, ans):
        ctx.evaluations += 1
        ctx.count("tetra-callers", t["caller"])
        model = decvs(a)
        for p, q, b in zip(model, t["after"], t["before"]):
            if dist(p, q) > 1e-9:
                ctx.disagree("Residue.rotate_tetrahedral (Float model)", {"a1": t["a1"], "a2": t["a2"], "angle": t["angle"]}, p, q)
                break
            for axis in (t["a1"], t["a2"]):
                if abs(dist(q, axis) - dist(b, axis)) > 1e-9:
                    out.append(({"kind": "tetra-bond", "caller": t["caller"]}, f"rotate_tetrahedral from {t['caller']} changes the distance to a bond atom by {abs(dist(q, axis) - dist(b, axis)):.2e} A"))
                    break
    for (a, c, new), ansl in zip(m.nobonds[:cap], ans[len(recs) :]):
        ctx.evaluations += 1
        ctx.count("tetra-callers", "make_atom_with_no_bonds")
        p = decv(ansl)
        if dist(p, new) > 1e-9:
            ctx.disagree("make_atom_with_no_bonds (Float model)", {"atom": a, "close": c}, p, new)
        if abs(dist(new, a) - 1.0) > 1e-9:
            out.append(({"kind": "nobonds-length"}, f"make_atom_with_no_bonds places the atom {dist(new, a):.6f} A from the oxygen"))
    return out


def torsion_checks(ctx: Ctx, m: Monitor):
    """(c): every observed torsion change keeps every bond length and 1-3 distance, hydrogens included"""
    out = []
    for r in m.torsions:
        ctx.evaluations += 1
        ref = {n: [b for b in bs if b in r["before"] and b in r["after"]] for n, bs in r["ref_atoms"].items() if n in r["before"] and n in r["after"]}
        found = None
        for v, nb in ref.items():
            for u in nb:
                for w in [v] + nb:
                    if u != w and abs(dist(r["before"][u], r["before"][w]) - dist(r["after"][u], r["after"][w])) > 1e-6:
                        found = (u, v, w)
                        break
                if found:
                    break
            if found:
                break
        if found:
            u, v, w = found
            kind = "detached-by-torsion" if v == w else "angle-changed-by-torsion"
            pos = "NC" if r["is_n"] and r["is_c"] else "N" if r["is_n"] else "C" if r["is_c"] else "mid"
            out.append(({"kind": kind, "residue": r["resname"], "pos": pos, "dihedral": " ".join(r["dihedral"]), "atom": u if u.startswith("H") or not w.startswith("H") else w}, f"{r['residue']} torsion {' '.join(r['dihedral'])} ({r['caller']}): distance {u}-{w} {dist(r['before'][u], r['before'][w]):.4f} -> {dist(r['after'][u], r['after'][w]):.4f} A"))
    return out


def nearest_tie(ctx: Ctx, drv: Driver):
    """DefinitionResidue.get_nearest_bonds against the model's nearestBonds: every atom of every definition"""
    from pdb2pqr import io as pio

    from core import hexs, unhexs

    defs = pio.get_definitions()
    reqs, want = [], []
    for name, ref in defs.map.items():
        for x in ref.map:
            try:
                w = list(ref.get_nearest_bonds(x))
            except KeyError:
                continue  # a bond partner that is not in the definition (pseudo-atom of an unpatched definition)
            reqs.append(f"repairfit.nearest\t{hexs(name)}\t\t{hexs(x)}")
            want.append((name, x, w))
    for (name, x, w), a in zip(want, drv.ask(reqs)):
        ctx.evaluations += 1
        got = [unhexs(t) for t in a.split(",")] if a and a != "unknown" else ([] if a != "unknown" else None)
        if got != w:
            ctx.disagree("DefinitionResidue.get_nearest_bonds", {"definition": name, "atom": x}, got, w)
    ctx.count("nearest-bonds-compared", "atoms of all definitions", len(want))


def template_spans(ref, names):
    """some pair of the template atoms `names` is more than two bonds apart in the template"""

    def within2(a, b):
        if a == b or b in ref.map[a].bonds:
            return True
        return any(c in ref.map and b in ref.map[c].bonds for c in ref.map[a].bonds)

    ns = [n for n in names if n in ref.map]
    return any(not within2(a, b) for i, a in enumerate(ns) for b in ns[i + 1 :])


def fit_choice_tie(ctx: Ctx, drv: Driver, m: Monitor):
    """the three atoms repair_heavy / add_hydrogens (superposition route) fitted on (template names from the pairing record) against the model's fitAtoms
    for that residue's run-time reference and the atoms present at that moment"""
    from core import hexs, unhexs

    reqs, recs = [], []
    for c in m.created:
        if c.get("caller") not in ("repair_heavy", "add_hydrogens") or not c.get("pairing") or c.get("present") is None:
            continue
        if any(t is None for t, _w, _a in c["pairing"]):
            continue
        reqs.append(f"repairfit.fit\t{hexs(c['resname'])}\t{','.join(hexs(p) for p in c['patches'])}\t{','.join(hexs(n) for n in c['present'])}\t{hexs(c['name'])}")
        recs.append(c)
    for c, a in zip(recs, drv.ask(reqs)):
        ctx.evaluations += 1
        if a == "unknown":
            ctx.count("fit-choice", "reference not in the generated topology")
            continue
        f, _, loc = a.partition("|")
        got = [unhexs(t) for t in f.split(",")] if f else []
        want = [t for t, _w, _a in c["pairing"]]
        ctx.count("fit-choice", c["caller"] + ":" + ("local" if loc == "1" else "spans-a-rotatable-bond"))
        if got != want:
            ctx.disagree(c["caller"] + " (choice of the three fit atoms)", {"residue": str(c["residue"]), "atom": c["name"], "present": c["present"]}, got, want)


def gap_pointer_kind(c, t):
    """was the pointer behind template atom `t` set untested (this residue's own atom of that peptide bond was missing when
    update_bonds ran: it is the atom being built, or was itself rebuilt), or should update_bonds have cleared it?"""
    res = c["residue"]
    own = "C" if t == "N+1" else "N"
    missing = c["name"] == own or not res.has_atom(own) or bool(getattr(res.get_atom(own), "added", False))
    return "untested(partner atom missing)" if missing else "should-have-been-cleared"


def link_tie(ctx: Ctx, drv: Driver, m: Monitor):
    """the neighbour pointers update_bonds set for every consecutive pair of amino-acid residues vs the model's peptideLink"""
    recs = getattr(m, "links", [])
    ans = drv.ask([f"repairfit.link\t{int(t['hasC'])}\t{int(t['hasN'])}\t{int(t['far'])}" for t in recs])
    for t, a in zip(recs, ans):
        ctx.evaluations += 1
        ctx.count("peptide-link", ("both atoms" if t["hasC"] and t["hasN"] else "C missing" if t["hasN"] else "N missing" if t["hasC"] else "both missing") + (", far apart" if t["far"] else ""))
        real = f"{int(t['pn'])}{int(t['pc'])}"
        if a != real:
            ctx.disagree("Biomolecule.update_bonds (neighbour pointers)", {"pair": t["pair"], "hasC": t["hasC"], "hasN": t["hasN"], "far": t["far"]}, a, real)


def third_checks(ctx: Ctx, drv: Driver, m: Monitor):
    """rebuild_tetrahedral with two hydrogens present: the position taken vs the model's thirdHydrogen (Float), and
    the theorem third_hydrogen_clear instantiated: one side from the first hydrogen, at least half a side from the second"""
    recs = getattr(m, "thirds", [])[:80]
    out = []
    ans = drv.ask([f"rigid.third\t{encv(t['next'])}\t{encv(t['bond'])}\t{encv(t['h0'])}\t{encv(t['h1'])}" for t in recs])
    for t, a in zip(recs, ans):
        ctx.evaluations += 1
        model = decv(a)
        side = None
        # the two candidates: the model's answer for a far-away and for an on-top second hydrogen are not needed;
        # measure the side as the distance new - h0
        side = dist(t["new"], t["h0"])
        off = min(abs(dist(t["h1"], t["h0"]) - side), 9.0)
        ctx.count("third-hydrogen", "second hydrogen on a slot" if off < 0.02 else "second hydrogen off its slot")
        if dist(model, t["new"]) > 1e-6:
            ctx.disagree("Amino.rebuild_tetrahedral (position of the third hydrogen)", {"next": t["next"], "bond": t["bond"], "h0": t["h0"], "h1": t["h1"]}, model, t["new"])
        if dist(t["new"], t["h1"]) < side / 2 - 1e-6:
            out.append(({"kind": "third-hydrogen-on-an-existing-one"}, f"{t['residue']} {t['name']}: placed {dist(t['new'], t['h1']):.3f} A from the second hydrogen of its group; the free position is {side:.3f} A from the first and at least {side / 2:.3f} A from the second"))
    return out


def mfit_coords(c, m, ua):
    """coordinates `ua` had when it served as a fit atom of creation record `c` (None if it did not)"""
    cur = tuple(ua.coords)
    ini = m.init_coords.get(id(ua)) if not ua.added else None
    for p in c["fit"]["refs"]:
        if dist(p, cur) < 1e-9 or (ini is not None and ini[0] is not None and dist(p, ini) < 1e-9):
            return p
    return None


def final_checks(ctx: Ctx, m: Monitor, bio):
    """(b) on the returned biomolecule"""
    from pdb2pqr.aa import WAT

    out = []
    # atoms whose coordinates were assigned again after creation by the hydrogen-bond optimisation
    repositioned = {id(a) for a, caller in m.writes if caller not in ("create_atom", "set_dihedral_angle", "rotate_tetrahedral")}
    last = {}
    maxres = {}
    for c in m.created:
        last[id(c["atom"])] = c
        if c["fit"] is not None and "residuals" in c["fit"]:
            k = id(c["residue"])
            maxres[k] = max(maxres.get(k, 0.0), max(c["fit"]["residuals"]))
    # every fit point stands for the template atom it is paired with: own atoms by name, the template's N+1 / C-1
    # by the N of the next / the C of the previous residue of the chain
    for c in m.created:
        for t, where, an in c.get("pairing") or []:
            if t is None:
                continue
            want = ("next", "N") if t == "N+1" else ("prev", "C") if t == "C-1" else ("own", t)
            ctx.count("fit-point-pairing", "own" if want[0] == "own" else t)
            if (where, an) == want and want[0] in ((c.get("fit") or {}).get("gaps") or []):
                # known finding: the neighbour the template atom stands for is not bonded to this residue (chain gap),
                # yet its atom serves as a fit point (update_bonds sets the pointer untested when the partner atom of
                # the peptide bond is missing: theorem peptide_link_untested_refuted)
                out.append(({"kind": "fit-across-a-chain-gap", "template": t, "pointer": gap_pointer_kind(c, t)}, f"{c['residue']} {c['name']} ({c['caller']}): fitted on {an} of the {where} residue although there is a gap in the chain between the two (CA-CA > 4.05 A)"))
                break
            if (where, an) != want:
                out.append(({"kind": "fit-on-wrong-atom", "caller": c["caller"], "template": t if t in ("N+1", "C-1") else "own"}, f"{c['residue']} {c['name']} ({c['caller']}): the fit point for template atom {t} is {an} of the {where} residue, expected {want[1]} of the {want[0]} residue"))
                break
    for res in bio.residues:
        ref = getattr(res, "reference", None)
        if ref is None:
            continue
        pos = position(res)
        out_start = len(out)
        tolres = maxres.get(id(res), 0.0) + 1e-3
        # distortion already present among BONDED input heavy atoms of the residue (a fit may not borrow
        # slack from atoms that are not bonded, e.g. across a chain break)
        bonded_dist = 0.0
        for v in res.atoms:
            if v.added or v.name not in ref.map:
                continue
            for u in ref.map[v.name].bonds:
                if res.has_atom(u) and not res.get_atom(u).added:
                    bonded_dist = max(bonded_dist, abs(dist(v.coords, res.get_atom(u).coords) - dist(ref.map[v.name].coords, ref.map[u].coords)))
        # the peptide bonds to the neighbouring residues are bonds among input atoms too: their distortion (bond
        # length N - C-1 / C - N+1, and the 1-3 distances CA - C-1 / CA - N+1, i.e. the angles at N and C) is part
        # of "the distortion already present in the input" for whatever is fitted on those neighbours
        for pseudo_name, other, own in (("C-1", getattr(res, "peptide_c", None), "N"), ("N+1", getattr(res, "peptide_n", None), "C")):
            if other is None or getattr(other, "added", False) or pseudo_name not in ref.map:
                continue
            for u in (own, "CA"):
                if res.has_atom(u) and not res.get_atom(u).added and u in ref.map:
                    bonded_dist = max(bonded_dist, abs(dist(res.get_atom(u).coords, other.coords) - dist(ref.map[u].coords, ref.map[pseudo_name].coords)))
        # a hydrogen built by rotating an input hydrogen inherits that hydrogen's bond length: the
        # distortion among bonded input atoms (input hydrogens included) is part of the allowance
        tolres = min(max(tolres, bonded_dist + 1e-3), max(0.25, 2.0 * bonded_dist))
        for a in res.atoms:
            if not a.added or id(a) in m.flip_alias or a.name not in ref.map:
                continue
            isH = a.name.startswith("H")
            ctx.count("added-atoms-checked", "H" if isH else "heavy")
            c = last.get(id(a))
            nbs = [u for u in ref.map[a.name].bonds if res.has_atom(u)]
            if isH and not nbs:
                out.append(({"kind": "no-parent", "residue": res.name, "pos": pos, "atom": a.name}, f"{res} {a.name}: no atom it is bonded to is present"))
                continue
            fitpts = None
            if c is not None and c["fit"] is not None:
                fitpts = [tuple(p) for p in c["fit"]["refs"]]
            for u in nbs:
                ua = res.get_atom(u)
                if not isH and not (fitpts and any(dist(tuple(ua.coords), p) < 1e-9 for p in fitpts)):
                    continue  # a rebuilt heavy atom is only bound to the atoms it was fitted on
                tpl = dist(ref.map[a.name].coords, ref.map[u].coords)
                d = dist(a.coords, ua.coords)
                ctx.count("bond-deviation-A", "<0.01" if abs(d - tpl) < 0.01 else "<0.05" if abs(d - tpl) < 0.05 else ">=0.05")
                if abs(d - tpl) > tolres:
                    out.append(({"kind": "bond", "residue": res.name, "pos": pos, "atom": a.name}, f"{res} {a.name}-{u}: {d:.4f} A, template {tpl:.4f} A, tolerance {tolres:.4f} A (largest fit residual of the residue, capped by the distortion among its bonded input atoms)"))
                    break
            if isH and nbs:
                p = nbs[0]
                pa = res.get_atom(p)
                ws = [w for w in ref.map[p].bonds if w != a.name and res.has_atom(w)]
                # gross check against the template: distortion of the input around the parent (all
                # pairs of input neighbours, the peptide neighbour included) plus 20 degrees
                hv = [(w, res.get_atom(w).coords, ref.map[w].coords) for w in ws if not res.get_atom(w).added]
                for pseudo_name, other in (("C-1", getattr(res, "peptide_c", None)), ("N+1", getattr(res, "peptide_n", None))):
                    if other is not None and pseudo_name in ref.map and pseudo_name in ref.map[p].bonds:
                        hv.append((pseudo_name, other.coords, ref.map[pseudo_name].coords))
                distort = 0.0
                for i in range(len(hv)):
                    for j in range(i + 1, len(hv)):
                        distort = max(distort, abs(angle(hv[i][1], pa.coords, hv[j][1]) - angle(hv[i][2], ref.map[p].coords, hv[j][2])))
                for w in ws:
                    dev = abs(angle(a.coords, pa.coords, res.get_atom(w).coords) - angle(ref.map[a.name].coords, ref.map[p].coords, ref.map[w].coords))
                    # against an INPUT hydrogen of the same group that is off its ideal position the angle of the new
                    # hydrogen is off by up to 1.7 times what that hydrogen's own angles are off (turning one member of
                    # an XH3 group about the bond by d degrees: 53 vs 32 degrees at d = 60): twice the distortion there
                    wa = res.get_atom(w)
                    allow = (2.0 * distort if (w.startswith("H") and not wa.added) else distort) + 20.0
                    if dev > allow:
                        out.append(({"kind": "angle", "residue": res.name, "pos": pos, "atom": a.name}, f"{res} angle {a.name}-{p}-{w} is {dev:.1f} degrees off the template (distortion of the input around {p}: {distort:.1f})"))
                        break
                # groups of three hydrogens are built by 120-degree rotations of one fitted hydrogen:
                # their mutual angles are pdb2pqr's own construction (observed <= 1.3 degrees off)
                sibs = [w for w in ws if w.startswith("H") and res.get_atom(w).added and id(res.get_atom(w)) not in m.flip_alias]
                if len(sibs) >= 2 and not isinstance(res, WAT):
                    for w in sibs:
                        dev = abs(angle(a.coords, pa.coords, res.get_atom(w).coords) - angle(ref.map[a.name].coords, ref.map[p].coords, ref.map[w].coords))
                        ctx.count("three-hydrogen-group-angle-deviation", "<1" if dev < 1 else "<3" if dev < 3 else ">=3")
                        if dev > 3.0:
                            out.append(({"kind": "tetrahedral-angle", "residue": res.name, "pos": pos, "atom": a.name}, f"{res} angle {a.name}-{p}-{w} is {dev:.1f} degrees off the template in a group of three hydrogens"))
                            break
            if not isH and nbs:
                # a rebuilt heavy atom: gross angle check at its parent against the template, the neighbours across
                # the peptide bond included (template atoms N+1 / C-1 = the next residue's N / the previous residue's
                # C, taken here from the chain, not from what the code fitted on). Neighbours that were themselves
                # rebuilt are skipped; the allowance is the distortion of the input around the parent plus 20 degrees.
                p = nbs[0]
                pa = res.get_atom(p)
                hv = [(w, res.get_atom(w).coords, ref.map[w].coords) for w in ref.map[p].bonds if w != a.name and res.has_atom(w) and not res.get_atom(w).added]
                for pseudo_name, other in (("C-1", getattr(res, "peptide_c", None)), ("N+1", getattr(res, "peptide_n", None))):
                    if other is not None and not getattr(other, "added", False) and pseudo_name in ref.map and pseudo_name in ref.map[p].bonds:
                        hv.append((pseudo_name, other.coords, ref.map[pseudo_name].coords))
                distort = 0.0
                for i in range(len(hv)):
                    for j in range(i + 1, len(hv)):
                        distort = max(distort, abs(angle(hv[i][1], pa.coords, hv[j][1]) - angle(hv[i][2], ref.map[p].coords, hv[j][2])))
                if not pa.added:
                    for w, wc, wt in hv:
                        dev = abs(angle(a.coords, pa.coords, wc) - angle(ref.map[a.name].coords, ref.map[p].coords, wt))
                        ctx.count("rebuilt-heavy-angle-deviation", "<5" if dev < 5 else "<20" if dev < 20 else ">=20")
                        if dev > distort + 20.0:
                            out.append(({"kind": "angle", "residue": res.name, "pos": pos, "atom": a.name}, f"{res} angle {a.name}-{p}-{w} of the rebuilt atom {a.name} is {dev:.1f} degrees off the template (distortion of the input around {p}: {distort:.1f})"))
                            break
            # persistence: distances to the fit atoms that are the parent or bonded to it are those of the creation
            if c is not None and c["fit"] is not None and c["coords"] == tuple(a.coords) or (c is not None and c["fit"] is not None and nbs):
                parent = nbs[0] if nbs else None
                near = set([parent] + [w for w in (ref.map[parent].bonds if parent in ref.map else [])]) if parent else set()
                for u in near:
                    if u == a.name or not res.has_atom(u):
                        continue
                    ua = res.get_atom(u)
                    ini = mfit_coords(c, m, ua)
                    if ini is None:
                        continue
                    d0 = dist(c["coords"], ini)
                    d1 = dist(a.coords, ua.coords)
                    if abs(d0 - d1) > 1e-6 and id(a) not in repositioned:
                        out.append(({"kind": "not-rigid-with-parent", "residue": res.name, "pos": pos, "atom": a.name}, f"{res} distance {a.name}-{u} was {d0:.4f} A when {a.name} was placed and is {d1:.4f} A in the final model"))
                        break
            for b in res.atoms:
                if b is not a and dist(a.coords, b.coords) < 0.5:
                    sig = {"kind": "coincident", "residue": res.name, "pos": pos, "atom": a.name}
                    bb = ("N", "H", "CA", "HA", "HA2", "HA3", "C", "O", "OXT", "H2", "H3")
                    debumped = any(t["residue"] is res and t["caller"] == "debump_residue" for t in m.torsions) or m.torsion_calls > len(m.torsions)
                    if debumped and ((a.name in bb) != (b.name in bb)):
                        # a side-chain atom sits on a backbone atom of its own residue after debumping
                        sig = {"kind": "coincident", "cause": "debumped-onto-own-backbone"}
                    out.append((sig, f"{res} {a.name} is {dist(a.coords, b.coords):.3f} A from {b.name}"))
                    break
        # known finding: a missing heavy atom whose three fit atoms (template names, taken from the pairing record,
        # i.e. from the template coordinates the code passed to the fit) are not pairwise within two bonds of each
        # other in the template is fitted across a rotatable bond: the template's torsion differs from the
        # structure's, the fit cannot be exact, and the atom (and what is then built on it) comes out with wrong bond
        # lengths and angles. Kernel-checked scope: Props/C05 truncated_rebuild_fits_local (never for truncated side
        # chains, the carbonyl O or leaves), single_missing_middle_atom_refuted (always for a mid-chain amide N, for
        # CG of lysine ...). Identified by: the atom at fault is such a rebuilt atom or within two template bonds of one.
        across_gap = []
        for a in res.atoms:
            c_a = last.get(id(a))
            if a.added and c_a is not None and c_a.get("pairing") and a.name in ref.map:
                gaps_a = (c_a.get("fit") or {}).get("gaps") or []
                if any(w in gaps_a and t in ("N+1", "C-1") and gap_pointer_kind(c_a, t).startswith("untested") for t, w, _n in c_a["pairing"]):
                    across_gap.append(a.name)
        if across_gap:
            near = set()
            for x in across_gap:
                near.add(x)
                for u in ref.map[x].bonds:
                    near.add(u)
                    if u in ref.map:
                        near.update(ref.map[u].bonds)
            for k in range(out_start, len(out)):
                sg, msg = out[k]
                if sg.get("atom") in near and sg.get("kind") in ("bond", "angle", "tetrahedral-angle", "coincident"):
                    out[k] = ({"kind": "fit-across-a-chain-gap", "template": "consequence", "pointer": "untested(partner atom missing)"}, msg)
        spanning = []
        for a in res.atoms:
            c_a = last.get(id(a))
            if a.added and c_a is not None and c_a.get("caller") == "repair_heavy" and c_a.get("pairing") and a.name in ref.map:
                tn = [t for t, _w, _a in c_a["pairing"] if t is not None]
                if len(tn) == 3 and template_spans(ref, tn):
                    spanning.append(a.name)
        if spanning:
            near = set()
            for x in spanning:
                near.add(x)
                for u in ref.map[x].bonds:
                    near.add(u)
                    if u in ref.map:
                        near.update(ref.map[u].bonds)
            for k in range(out_start, len(out)):
                sg, msg = out[k]
                if sg.get("atom") in near and sg.get("kind") in ("bond", "angle", "tetrahedral-angle"):
                    out[k] = ({"kind": "rebuilt-heavy-atom", "cause": "fit-spans-a-rotatable-bond"}, msg)
    return out


# ------------------------------------------------------------------ protonated carboxyl groups
# The clause "stays attached to its parent atom through optimisation" for the one optimisation class that RENAMES heavy
# atoms: Carboxylic keeps one of the alternative protons of a protonated carboxyl group and, because the force fields
# know the proton only as HD2 / HE2 (HO) on OD2 / OE2 (OXT... O), swaps the NAMES of the two oxygens when the proton kept
# sits on the other one. Which oxygens get candidate protons depends on the two C-O bond lengths of the input (only the
# longer bond when they differ by more than 0.05 A). The stream below varies exactly that.

_DEF_PARENTS = None
CARBOXYL = {"ASP": ("CG", "OD1", "OD2", "ASH"), "GLU": ("CD", "OE1", "OE2", "GLH"), "ASH": ("CG", "OD1", "OD2", "ASH"), "GLH": ("CD", "OE1", "OE2", "GLH")}
CARBOXYL_SHAPES = ("first-longer", "second-longer", "symmetric", "first-longer-borderline", "second-longer-borderline", "as-deposited")


def def_parents():
    """{definition name: {hydrogen name: (parent name, template bond length)}} read from the topology data files
    (AA.xml / NA.xml through pdb2pqr.io.get_definitions), not from any residue object of a run"""
    global _DEF_PARENTS
    if _DEF_PARENTS is None:
        from pdb2pqr import io as pio

        out = {}
        for name, ref in pio.get_definitions().map.items():
            tab = {}
            for an, at in getattr(ref, "map", {}).items():
                if not an.startswith("H"):
                    continue
                heavy = [b for b in at.bonds if not b.startswith("H") and b in ref.map]
                if len(heavy) == 1:
                    tab[an] = (heavy[0], dist(tuple(map(float, at.coords)), tuple(map(float, ref.map[heavy[0]].coords))))
            out[name] = tab
        _DEF_PARENTS = out
    return _DEF_PARENTS


def parent_checks(ctx: Ctx, text, bio, tol=0.25):
    """every hydrogen of the final model that the INPUT did not carry (so: added by pdb2pqr) lies at the template bond
    length from the atom that its residue definition names as its parent - both taken BY NAME from the final model.
    Parent and length come from the definition files for the residue's final name; for ASP / GLU that carry the
    carboxylic proton (protonated through the pKa route: patch ASH / GLH) from the ASH / GLH definition."""
    given = set()
    for l in text.splitlines():
        if l.startswith(("ATOM", "HETATM")) and len(l) >= 54:
            given.add((l[21], l[22:27].strip(), l[12:16].strip()))
    tabs = def_parents()
    out = []
    for res in bio.residues:
        tab = dict(tabs.get(res.name) or {})
        if res.name in ("ASP", "GLU"):
            prot = tabs.get(CARBOXYL[res.name][3]) or {}
            for hn in ("HD1", "HD2", "HE1", "HE2"):
                if hn in prot:
                    tab.setdefault(hn, prot[hn])
        if not tab:
            continue
        byname = {a.name: a for a in res.atoms}
        for a in res.atoms:
            if not a.name.startswith("H") or (str(res.chain_id), f"{res.res_seq}{res.ins_code}".strip(), a.name) in given:
                continue
            if a.name not in tab:
                ctx.count("template-parent-oracle", "hydrogen not in the base definition (terminus / patch)")
                continue
            pn, tpl = tab[a.name]
            ctx.evaluations += 1
            if pn not in byname:
                ctx.count("template-parent-oracle", "parent absent")
                out.append(({"kind": "no-parent", "residue": res.name, "pos": position(res), "atom": a.name}, f"{res} {a.name}: the atom {pn} its definition bonds it to is not in the final model"))
                continue
            d = dist(tuple(a.coords), tuple(byname[pn].coords))
            carbox = a.name in ("HD1", "HD2", "HE1", "HE2") and res.name in CARBOXYL
            ctx.count("template-parent-oracle", ("carboxylic proton " if carbox else "hydrogen ") + ("at bond length" if abs(d - tpl) <= tol else "OFF its parent"))
            if abs(d - tpl) > tol:
                near = min(((dist(tuple(a.coords), tuple(b.coords)), b.name) for b in res.atoms if b is not a and not b.name.startswith("H")), default=(float("nan"), "?"))
                out.append(({"kind": "hydrogen-off-its-template-parent", "residue": res.name, "pos": position(res), "atom": a.name}, f"{res} {a.name}: {d:.3f} A from {pn}, the atom its definition bonds it to (template {tpl:.3f} A); it sits {near[0]:.3f} A from {near[1]}"))
    return out


def set_bond_length(c, o, length):
    """move atom o along the line c -> o so that |co| = length"""
    v = (o.x - c.x, o.y - c.y, o.z - c.z)
    n = math.sqrt(sum(t * t for t in v))
    if n < 1e-6:
        return
    o.x, o.y, o.z = (round(c.x + v[0] / n * length, 3), round(c.y + v[1] / n * length, 3), round(c.z + v[2] / n * length, 3))


def shape_carboxyl(rng, r, shape):
    """give the carboxyl group of residue r (ASP / GLU side chain) the two C-O bond lengths of `shape`. -> (l1, l2) as written"""
    cn, o1n, o2n, _ = CARBOXYL[r[0].resn]
    at = {a.name: a for a in r}
    if not all(n in at for n in (cn, o1n, o2n)):
        return None
    c, o1, o2 = at[cn], at[o1n], at[o2n]
    if shape != "as-deposited":
        long_, short = rng.uniform(1.30, 1.36), rng.uniform(1.19, 1.23)
        if shape == "symmetric":
            l1 = rng.uniform(1.24, 1.27)
            l2 = l1 + rng.uniform(-0.03, 0.03)
        elif shape.endswith("borderline"):
            # around the 0.05 A at which only the longer bond is optimised (coordinates are written with 3 decimals)
            short = rng.uniform(1.22, 1.25)
            long_ = short + rng.choice([0.04, 0.045, 0.056, 0.06, 0.07])
            l1, l2 = (long_, short) if shape.startswith("first") else (short, long_)
        else:
            l1, l2 = (long_, short) if shape.startswith("first") else (short, long_)
        set_bond_length(c, o1, l1)
        set_bond_length(c, o2, l2)
    p = lambda a: (a.x, a.y, a.z)  # noqa: E731
    return math.dist(p(c), p(o1)), math.dist(p(c), p(o2))


def gen_carboxyl_case(rng, ci):
    """a peptide with protonated carboxyl groups: given BY NAME as ASH / GLH, or ASP / GLU protonated through the pKa
    route (PROPKA at pH <= 1), the two C-O bonds of each group asymmetric in either direction, symmetric, or as deposited;
    waters near the group so that the hydrogen-bond routes (try_donor / try_acceptor / fix) run besides finalize"""
    must = rng.choice(["ASP", "GLU"])
    _f, res = G.window(rng, rng.choice([2, 3, 4, 6]), must_have=must)
    G.set_chain(res, "A", rng.choice([1, 17, 250]))
    shape = CARBOXYL_SHAPES[ci % len(CARBOXYL_SHAPES)]
    # shape, route and mode cycle with periods 6, 18 (blocks of six) and 7: every shape meets every route and mode
    route = ("name", "name", "pH")[(ci // len(CARBOXYL_SHAPES)) % 3]
    mode = ([], [], [], ["--nodebump"], [], [], ["--noopt"])[ci % 7]
    idx = [i for i, r in enumerate(res) if r[0].resn == must]
    ti = rng.choice(idx)
    waters = []
    written = None
    for i, r in enumerate(res):
        if r[0].resn not in ("ASP", "GLU"):
            continue
        sh = shape if i == ti else rng.choice(CARBOXYL_SHAPES)
        lens = shape_carboxyl(rng, r, sh)
        if i == ti:
            written = lens
        if route == "name" and (i == ti or rng.random() < 0.7):
            for a in r:
                a.resn = CARBOXYL[a.resn][3]
    allp = [(a.x, a.y, a.z) for r in res for a in r]
    cat = next((a for a in res[ti] if a.name == CARBOXYL[res[ti][0].resn][0]), None)
    if cat is not None:
        for k in range(rng.choice([0, 0, 1, 2, 3])):
            for _ in range(60):
                w = G.water(rng, "A", 900 + k, (cat.x, cat.y, cat.z), 4.0, rng.choice(["HOH", "HOH", "WAT"]))
                p = (w[0].x, w[0].y, w[0].z)
                if min(math.dist(p, q) for q in allp) > 2.5:
                    waters.append(w)
                    allp.append(p)
                    break
    opts = ["--ff=" + rng.choice(["AMBER", "CHARMM", "PARSE", "SWANSON", "TYL06", "PEOEPB"])]
    if route == "pH":
        opts += ["--titration-state-method=propka", f"--with-ph={rng.choice([0.0, 0.5, 1.0])}"]
    opts += mode
    diff = (written[0] - written[1]) if written else 0.0
    feats = {
        "kind": "protonated-carboxyl:" + shape,
        "mode": ("by-name" if route == "name" else "by-pH") + (" " + " ".join(mode) if mode else ""),
        "target": CARBOXYL[must][3] if route == "name" else must,
        "pos": "NC" if len(res) == 1 else ("N" if ti == 0 else ("C" if ti == len(res) - 1 else "mid")),
        "c-o-difference": "first longer by > 0.05" if diff > 0.05 else "second longer by > 0.05" if diff < -0.05 else "within 0.05",
    }
    return G.to_pdb([res], waters), opts, feats


def check_case(ctx: Ctx, drv: Driver, text, opts, feats, seen_sig, parents=False):
    with Monitor() as m:
        r = G.run_pipeline(text, opts)
    ctx.evaluations += 1
    ctx.count("status", r.status)
    ctx.count("case-kind", feats["kind"])
    ctx.count("mode", feats["mode"])
    ctx.count("target", f"{feats['target']}@{feats['pos']}")
    ctx.distinct.add((feats["kind"], feats["mode"], feats["target"], feats["pos"]))
    if r.status != "ok":
        return
    fit_choice_tie(ctx, drv, m)
    link_tie(ctx, drv, m)
    found = fit_checks(ctx, drv, m) + tetra_checks(ctx, drv, m) + third_checks(ctx, drv, m) + torsion_checks(ctx, m) + final_checks(ctx, m, r.biomolecule)
    if parents:
        found += parent_checks(ctx, text, r.biomolecule)
    ctx.count("oracle", "holds" if not found else found[0][0]["kind"])
    for sig, msg in found:
        k = tuple(sorted(sig.items()))
        if k not in seen_sig:
            seen_sig.add(k)
            ctx.violate(sig, msg, {"pdb": text, "options": opts})
    return r


def with_waters(rng, text):
    """add a few free waters (bare oxygens) so that the water placement routes run"""
    lines = text.splitlines()
    atoms = [l for l in lines if l.startswith(("ATOM", "HETATM"))]
    if not atoms:
        return text
    cs = [(float(l[30:38]), float(l[38:46]), float(l[46:54])) for l in atoms]
    c = tuple(sum(p[i] for p in cs) / len(cs) for i in range(3))
    ws = []
    for k in range(rng.randint(1, 4)):
        w = G.water(rng, "A", 950 + k, c, 7.0, rng.choice(["HOH", "WAT"]))
        if min(math.dist((w[0].x, w[0].y, w[0].z), p) for p in cs) > 2.4:
            ws.append(w[0].line(9000 + k))
    end = [l for l in lines if l.startswith("END")]
    body = [l for l in lines if not l.startswith("END")]
    return "\n".join(body + ws + end) + "\n"


def crystal_water_case(ctx: Ctx, seen_sig):
    """one deposited structure with its ~200 crystal waters (tests/data/1AFS.pdb), default options: only a crowded
    hydrogen-bond network makes a water accept, donate and accept again before its last hydrogen is placed in the one
    free tetrahedral slot (Optimize.get_position_with_three_bonds). Oracle on every water of the final model: the
    two added hydrogens are two atoms (not within 0.5 A of each other or of the oxygen), each at the template O-H length
    (0.25 A), H-O-H between 90 and 125 degrees."""
    p = G.DATA / "1AFS.pdb"
    if not p.exists():
        ctx.count("crystal-waters", "1AFS.pdb not available")
        return
    text = p.read_text()
    opts = ["--ff=AMBER", "--keep-chain"]
    r = G.run_pipeline(text, opts)
    ctx.evaluations += 1
    ctx.count("crystal-waters", r.status)
    ctx.distinct.add(("crystal-waters", "1AFS"))
    if r.status != "ok":
        return
    nw = 0
    for res in r.biomolecule.residues:
        if res.name not in ("HOH", "WAT") or not (res.has_atom("O") and res.has_atom("H1") and res.has_atom("H2")):
            continue
        nw += 1
        o, h1, h2 = (res.get_atom(n).coords for n in ("O", "H1", "H2"))
        d1, d2, dhh = dist(o, h1), dist(o, h2), dist(h1, h2)
        cosang = sum((a - c) * (b - c) for a, b, c in zip(h1, h2, o)) / (d1 * d2) if d1 > 1e-9 and d2 > 1e-9 else 1.0
        ang = math.degrees(math.acos(max(-1.0, min(1.0, cosang))))
        bad = "coincident" if min(d1, d2, dhh) < 0.5 else "bond" if abs(d1 - 1.0) > 0.25 or abs(d2 - 1.0) > 0.25 else "angle" if not 90.0 <= ang <= 125.0 else None
        if bad:
            sig = {"kind": "water-" + bad, "residue": "HOH", "stream": "crystal-waters"}
            k = tuple(sorted(sig.items()))
            if k not in seen_sig:
                seen_sig.add(k)
                ctx.violate(sig, f"{res}: O-H1 {d1:.3f} O-H2 {d2:.3f} H1-H2 {dhh:.3f} A, H-O-H {ang:.1f} degrees (1AFS with its crystal waters, {' '.join(opts)})", {"pdb": text, "options": opts, "stream": "crystal-waters"})
    ctx.count("crystal-waters-checked", "200+" if nw >= 200 else "<200", nw) if False else ctx.count("crystal-waters-checked", "200+" if nw >= 200 else "<200")


def run(ctx: Ctx):
    G.quiet()
    rng = ctx.rng
    drv = Driver()
    ctx.extra["rule"] = (
        "the C04 case stream (each residue type forced in turn at every chain position, packed waters forcing debumping, missing side-chain atoms (outer ends, single atoms in the middle of a chain, backbone O / N) forcing heavy-atom repair, disulfide pairs, option modes incl. PROPKA states) plus free waters; "
        "peptides with protonated carboxyl groups (ASH / GLH by name, ASP / GLU through PROPKA at pH <= 1) whose two C-O bond lengths are asymmetric in either direction, symmetric, borderline (0.04-0.07 A) or as deposited, waters nearby; "
        "a case is (kind, option mode, target residue type, position); every find_coordinates / rotate_tetrahedral / make_atom_with_no_bonds / set_dihedral_angle call observed is an evaluation"
    )
    seen_sig = set()
    nearest_tie(ctx, drv)
    crystal_water_case(ctx, seen_sig)
    # inputs that carry two hydrogens of a group of three, one of them off its ideal position (hydrogens that were
    # not made by pdb2pqr): the third one must go to the free position
    for ci in range(ctx.scale(12, 300)):
        text, opts, feats = c04.gen_case(rng, ["ALA", "THR", "MET", "LYS", "VAL", "LEU", "ILE"][ci % 7], kind="partial-h", offslot=True)
        check_case(ctx, drv, text, opts, feats, seen_sig)
    # a missing backbone atom (carbonyl O / amide N) inside a chain: rebuilt on atoms of the neighbouring residue
    for ci in range(ctx.scale(10, 200)):
        text, opts, feats = c04.gen_case(rng, None, kind="missing", backbone=True)
        check_case(ctx, drv, text, opts[:1] + (["--nodebump"] if ci % 3 == 0 else []), feats, seen_sig)
    n = ctx.scale(60, 2500)
    for ci in range(n):
        force = G.AA3[ci % len(G.AA3)] if ci % 2 == 0 else None
        text, opts, feats = c04.gen_case(rng, force)
        if rng.random() < 0.4 and "hydrogenated" not in feats["kind"]:
            text = with_waters(rng, text)
            feats["kind"] += "+waters"
        check_case(ctx, drv, text, opts, feats, seen_sig)
        if ci < 2:
            ctx.sample({"options": opts, "features": feats, "pdb_head": text.splitlines()[:3]})
    # protonated carboxyl groups (ASH / GLH given by name, ASP / GLU protonated through the pKa route) with the two C-O
    # bond lengths asymmetric in either direction, symmetric, borderline, or as deposited: the optimisation class that
    # swaps the names of the two oxygens under the proton it keeps
    for ci in range(ctx.scale(24, 600)):
        text, opts, feats = gen_carboxyl_case(rng, ci)
        ctx.count("carboxyl-c-o-difference", f"{feats['mode']}: {feats.pop('c-o-difference')}")
        check_case(ctx, drv, text, opts, feats, seen_sig, parents=True)


def replay(ctx: Ctx, data: dict) -> bool:
    G.quiet()
    rp = data.get("replay", data)
    if rp.get("stream") == "crystal-waters":
        n0 = len(ctx.violations)
        crystal_water_case(ctx, set())
        for v in ctx.violations[n0:]:
            print(v["what"])
        return len(ctx.violations) > n0
    drv = Driver()
    with Monitor() as m:
        r = G.run_pipeline(rp["pdb"], rp["options"])
    if r.status != "ok":
        print("run status", r.status)
        return False
    found = fit_checks(ctx, drv, m) + tetra_checks(ctx, drv, m) + torsion_checks(ctx, m) + final_checks(ctx, m, r.biomolecule) + parent_checks(ctx, rp["pdb"], r.biomolecule)
    for sig, msg in found:
        print(sig, msg)
    return bool(found)
