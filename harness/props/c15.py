"""C15 — rigid-body fitting reproduces exact placements.

Tie: real quatfit.find_coordinates / qchichange, utilities.dihedral, Debump.set_dihedral_angle,
Residue.rotate_tetrahedral vs the Lean model P2P.Model.Geom executed in Float (same operation
order as the Python code; compared at 1e-9, the share of bit-identical answers is reported).
Oracle: the property's own tolerances (1e-6 A, 0.05 degrees) on the real routines."""

from __future__ import annotations

import math
import random

import gen_struct as G
from core import Ctx
from props.c17 import bits, unbits

import gen.consts as genconsts

GENERATORS = (genconsts.generate,)
TRUSTED_BASE = [
    "Lean 4.33.0 kernel; axioms ⊆ {propext, Classical.choice, Quot.sound}",
    "hand-written model lean/P2P/Model/Geom.lean tied to quatfit.py / utilities.py / debump.py / residue.py by differential execution in IEEE double arithmetic",
    "theorems are over the reals: floating-point rounding and the convergence of the Jacobi sweeps within 30 iterations are validated numerically on every sample, not proved",
    "numpy (normalize, cross, inner) may associate differently: answers compared at 1e-9",
]
ASSUMPTIONS = ["non-degenerate configurations (three or more non-collinear template points; non-zero axis)"]


def encv(v):
    return ",".join(bits(float(c)) for c in v)


def encvs(vs):
    return ";".join(encv(v) for v in vs)


def decv(s):
    return [unbits(x) for x in s.split(",")]


def decvs(s):
    return [decv(x) for x in s.split(";")] if s else []


def close(a, b, tol=1e-9):
    return all(abs(x - y) <= tol * max(1.0, abs(x), abs(y)) for x, y in zip(a, b))


def rot_apply(R, p):
    return [sum(R[i][k] * p[k] for k in range(3)) for i in range(3)]


def rigid_image(R, t, p):
    q = rot_apply(R, p)
    return [q[i] + t[i] for i in range(3)]


def triple(a, b, c):
    return a[0] * (b[1] * c[2] - b[2] * c[1]) - a[1] * (b[0] * c[2] - b[2] * c[0]) + a[2] * (b[0] * c[1] - b[1] * c[0])


def sub(a, b):
    return [a[i] - b[i] for i in range(3)]


def norm(a):
    return math.sqrt(sum(x * x for x in a))


_templates = None


def templates():
    """(three reference atoms, placed atom) template coordinates from the real definitions"""
    global _templates
    if _templates is None:
        from pdb2pqr import io as pio

        d = pio.get_definitions()
        _templates = []
        for name in G.AA3 + ["WAT"]:
            ref = d.map[name]
            for an, a in ref.map.items():
                near = [b for b in ref.get_nearest_bonds(an) if b in ref.map][:3]
                if len(near) == 3:
                    _templates.append(([list(map(float, (ref.map[b].x, ref.map[b].y, ref.map[b].z))) for b in near], [float(a.x), float(a.y), float(a.z)], f"{name}:{an}"))
    return _templates


def gen_fit_case(rng: random.Random):
    r = rng.random()
    if r < 0.5:
        defs, atom, label = rng.choice(templates())
        defs = [list(p) for p in defs]
        atom = list(atom)
        cls = "template"
    else:
        n = rng.choice([3, 3, 4, 5])
        scale = 10 ** rng.uniform(-0.5, 1.5)
        defs = [[rng.uniform(-scale, scale) for _ in range(3)] for _ in range(n)]
        atom = [rng.uniform(-scale, scale) for _ in range(3)]
        label = f"random{n}"
        cls = "random"
        if rng.random() < 0.15:
            # nearly collinear
            d = sub(defs[1], defs[0])
            defs[2] = [defs[0][i] + 2.0 * d[i] + rng.uniform(-1e-3, 1e-3) for i in range(3)]
            cls = "near-collinear"
    R = G.rotation(rng)
    off = 10 ** rng.choice([0, 1, 2, 3, 4, 5])
    t = [rng.uniform(-off, off) for _ in range(3)]
    refs = [rigid_image(R, t, p) for p in defs]
    return defs, atom, refs, R, t, label, cls, off


def collinearity(defs):
    """sine-like measure of how far the points are from a line: the largest triangle area
    (times two) over the squared diameter; 0 = collinear"""
    n = len(defs)
    diam = max(norm(sub(defs[i], defs[j])) for i in range(n) for j in range(i + 1, n)) or 1e-300
    best = 0.0
    for i in range(n):
        for j in range(i + 1, n):
            for k in range(j + 1, n):
                a, b = sub(defs[j], defs[i]), sub(defs[k], defs[i])
                cr = [a[1] * b[2] - a[2] * b[1], a[2] * b[0] - a[0] * b[2], a[0] * b[1] - a[1] * b[0]]
                best = max(best, norm(cr) / (diam * diam))
    return best


def fit_cases(ctx: Ctx, n):
    from pdb2pqr import quatfit

    rng = ctx.rng
    cases = [gen_fit_case(rng) for _ in range(n)]
    reqs = [f"geom.find\t{encvs(c[2])}\t{encvs(c[0])}\t{encv(c[1])}" for c in cases]
    ans = ctx.driver.ask(reqs) if ctx.driver.available() else None
    exact = 0
    for i, (defs, atom, refs, R, t, label, cls, off) in enumerate(cases):
        real = quatfit.find_coordinates(len(defs), [list(p) for p in refs], [list(p) for p in defs], list(atom))
        ctx.evaluations += 1
        ctx.distinct.add(("fit", cls, len(defs), int(math.log10(off))))
        ctx.count("fit-class", cls)
        if ans is not None:
            m = decv(ans[i])
            if m == list(real):
                exact += 1
            if not close(m, real, 1e-9) and not any(math.isnan(x) for x in m + list(real)):
                ctx.disagree("quatfit.find_coordinates", {"refs": refs, "defs": defs, "atom": atom}, str(m), str(list(real)))
        # oracle: exact rigid image, never a mirror image, for non-degenerate templates
        if collinearity(defs) < 5e-2:  # within 3 degrees of collinear: degenerate, outside the property
            ctx.count("fit-oracle", "skipped(near-collinear)")
            continue
        want = rigid_image(R, t, atom)
        err = norm(sub(list(real), want))
        tol = 1e-6 * max(1.0, off / 1e3)  # absolute 1e-6 A up to offsets of 1000 A; float spacing beyond
        if not (err <= tol):
            # mirror?
            c = [sum(p[k] for p in refs) / len(refs) for k in range(3)]
            kind = "mirror" if len(defs) == 3 and abs(norm(sub(list(real), c)) - norm(sub(want, c))) < 1e-6 else "inexact"
            ctx.violate({"routine": "find_coordinates", "class": cls, "kind": kind}, f"{label}: placed atom is {err:.3e} A from the rigid image (offset scale {off})", {"refs": refs, "defs": defs, "atom": atom, "want": want})
            ctx.count("fit-oracle", kind)
        else:
            ctx.count("fit-oracle", "holds")
        # equivariance under a further rigid motion
        if i % 4 == 0:
            R2 = G.rotation(rng)
            t2 = [rng.uniform(-50, 50) for _ in range(3)]
            refs2 = [rigid_image(R2, t2, p) for p in refs]
            real2 = quatfit.find_coordinates(len(defs), refs2, [list(p) for p in defs], list(atom))
            ctx.evaluations += 1
            if norm(sub(list(real2), rigid_image(R2, t2, list(real)))) > tol * 10:
                ctx.violate({"routine": "find_coordinates", "class": cls, "kind": "not-equivariant"}, f"{label}: result does not move with the structure", {"refs": refs, "defs": defs, "atom": atom, "R2": R2, "t2": t2})
    ctx.extra["find_coordinates_bit_identical"] = f"{exact}/{len(cases)}"
    if cases:
        c = cases[0]
        ctx.sample({"routine": "find_coordinates", "template": c[5], "defs": c[0], "refs": c[2], "atom": c[1]})


def chi_cases(ctx: Ctx, n):
    from pdb2pqr import quatfit
    from pdb2pqr import utilities as util

    rng = ctx.rng
    cases = []
    for _ in range(n):
        axis = [rng.uniform(-3, 3) for _ in range(3)]
        if rng.random() < 0.1:
            axis = [0.0, 0.0, rng.choice([1.0, -2.5])]
        angle = rng.choice([rng.uniform(-720, 720), rng.choice([0.0, 180.0, -180.0, 120.0, 360.0, 5.0])])
        pts = [[rng.uniform(-10, 10) for _ in range(3)] for _ in range(rng.randint(1, 6))]
        cases.append((axis, angle, pts))
    reqs = [f"geom.chi\t{encv(a)}\t{bits(g)}\t{encvs(p)}" for a, g, p in cases]
    reqs += [f"geom.dihedral\t{encvs(p[:4])}" for a, g, p in cases if len(p) >= 4]
    ans = ctx.driver.ask(reqs) if ctx.driver.available() else None
    k = len(cases)
    for i, (axis, angle, pts) in enumerate(cases):
        real = quatfit.qchichange(list(axis), [list(p) for p in pts], angle)
        ctx.evaluations += 1
        ctx.distinct.add(("chi", len(pts), int(angle // 90)))
        if ans is not None:
            m = decvs(ans[i])
            if not all(close(a, b) for a, b in zip(m, real)):
                ctx.disagree("quatfit.qchichange", {"axis": axis, "angle": angle, "points": pts}, str(m), str(real))
        # oracle: isometry fixing the axis
        u = [x / norm(axis) for x in axis]
        for p, q in zip(pts, real):
            if abs(norm(p) - norm(q)) > 1e-9 * max(1, norm(p)) or abs(sum(p[j] * u[j] for j in range(3)) - sum(q[j] * u[j] for j in range(3))) > 1e-9 * max(1, norm(p)):
                ctx.violate({"routine": "qchichange", "class": "random", "kind": "not-a-rotation-about-axis"}, "rotated point changes its distance to the origin or its height along the axis", {"axis": axis, "angle": angle, "points": pts})
                break
        if len(pts) >= 4:
            d_real = util.dihedral(*[list(p) for p in pts[:4]])
            ctx.evaluations += 1
            if ans is not None:
                dm = unbits(ans[k])
                k += 1
                if not (abs(dm - d_real) <= 1e-7 or (math.isnan(dm) and math.isnan(d_real))):
                    ctx.disagree("utilities.dihedral", {"points": pts[:4]}, str(dm), str(d_real))


def torsion_cases(ctx: Ctx, n):
    """Debump.set_dihedral_angle and Residue.rotate_tetrahedral on real residues"""
    import os
    import tempfile

    from pdb2pqr import aa, cells, debump
    from pdb2pqr import io as pio
    from pdb2pqr import main as pmain
    from pdb2pqr import utilities as util
    from pdb2pqr.config import CELL_SIZE

    rng = ctx.rng
    done = 0
    G.quiet()
    while done < n:
        _f, res = G.window(rng, rng.choice([3, 5]))
        G.set_chain(res, "A", 1)
        text = G.to_pdb([res])
        fd, path = tempfile.mkstemp(suffix=".pdb", prefix="c15_")
        with os.fdopen(fd, "w") as f:
            f.write(text)
        try:
            pdblist, _ = pio.get_molecule(path)
        finally:
            os.unlink(path)
        bio, _d, _l = pmain.setup_molecule(pdblist, pio.get_definitions(), None)
        bio.set_termini()
        bio.update_bonds()
        deb = debump.Debump(bio)
        deb.cells = cells.Cells(CELL_SIZE)
        deb.cells.assign_cells(bio)
        bio.calculate_dihedral_angles()
        bio.update_internal_bonds()
        try:
            bio.set_reference_distance()
        except ValueError:
            continue
        for r in bio.residues:
            if not isinstance(r, aa.Amino) or not r.reference.dihedrals:
                continue
            k = rng.randrange(len(r.reference.dihedrals))
            names = r.reference.dihedrals[k].split()
            if not all(r.has_atom(x) for x in names) or r.dihedrals[k] is None:
                continue
            # successive changes of the SAME torsion, as the debumping scan makes them (each one starts from the
            # angle the previous one left, which the code takes from its cache residue.dihedrals)
            nsteps = rng.choice([1, 1, 2, 4])
            ctx.count("torsion-changes-in-a-row", nsteps)
            seq_angles = []
            for step_i in range(nsteps):
                angle = rng.choice([rng.uniform(-180, 180), rng.uniform(-720, 720), 180.0, 0.0, -179.99])
                seq_angles.append(angle)
                coords = [list(map(float, r.get_atom(x).coords)) for x in names]
                old = r.dihedrals[k]
                moved_names = r.get_moveable_names(names[2])
                before = {a.name: [a.x, a.y, a.z] for a in r.atoms}
                deb.set_dihedral_angle(r, k, angle)
                after = {a.name: [a.x, a.y, a.z] for a in r.atoms}
                ctx.evaluations += 1
                done += 1
                ctx.distinct.add(("torsion", r.name, k))
                ctx.count("torsion-residues", r.name)
                if ctx.driver.available():
                    rel = [sub(before[m], coords[1]) for m in moved_names]
                    axis = sub(coords[2], coords[1])
                    ans = ctx.driver.ask([f"geom.chi\t{encv(axis)}\t{bits(angle - old)}\t{encvs(rel)}"])[0]
                    model = [[p[j] + coords[1][j] for j in range(3)] for p in decvs(ans)]
                    real = [after[m] for m in moved_names]
                    if not all(close(a, b) for a, b in zip(model, real)):
                        ctx.disagree("Debump.set_dihedral_angle", {"residue": str(r), "dihedral": names, "angle": angle}, str(model[:2]), str(real[:2]))
                # oracle: torsion is the requested one, distances to the axis atoms unchanged
                new = util.dihedral(*[after[x] for x in names])
                want = ((angle + 180.0) % 360.0) - 180.0
                dev = abs(((new - want + 180.0) % 360.0) - 180.0)
                if names[3] in moved_names and dev > 0.05:
                    ctx.violate({"routine": "set_dihedral_angle", "class": r.name, "kind": "torsion-not-set"}, f"{r} {names}, change {step_i + 1} of this torsion: requested {angle}, measured {new}", {"pdb": text, "residue": str(r), "dihedral": k, "angle": angle, "change_number": step_i + 1, "angles": list(seq_angles)})
                for m in moved_names:
                    for ax in (names[1], names[2]):
                        if abs(math.dist(before[m], before[ax]) - math.dist(after[m], after[ax])) > 1e-6:
                            ctx.violate({"routine": "set_dihedral_angle", "class": r.name, "kind": "axis-distance-changed"}, f"{r} {m}: distance to {ax} changed", {"pdb": text, "residue": str(r), "dihedral": k, "angle": angle, "change_number": step_i + 1, "angles": list(seq_angles)})
                for nm in before:
                    if nm not in moved_names and before[nm] != after[nm]:
                        ctx.violate({"routine": "set_dihedral_angle", "class": r.name, "kind": "fixed-atom-moved"}, f"{r} {nm} is not beyond the pivot but moved", {"pdb": text, "residue": str(r), "dihedral": k, "angle": angle, "change_number": step_i + 1, "angles": list(seq_angles)})
            if done >= n:
                break
        # rotate_tetrahedral: three 120-degree steps return to the start
        for r in bio.residues:
            if isinstance(r, aa.Amino) and r.has_atom("CA") and r.has_atom("CB") and len(r.get_atom("CB").bonds) > 1:
                a1, a2 = r.get_atom("CA"), r.get_atom("CB")
                start = {a.name: [a.x, a.y, a.z] for a in a2.bonds}
                for _ in range(3):
                    r.rotate_tetrahedral(a1, a2, 120)
                end = {a.name: [a.x, a.y, a.z] for a in a2.bonds}
                ctx.evaluations += 1
                if any(math.dist(start[k2], end[k2]) > 1e-6 for k2 in start):
                    ctx.violate({"routine": "rotate_tetrahedral", "class": r.name, "kind": "not-periodic"}, f"{r}: three 120-degree rotations about CA-CB do not return to the start", {"pdb": text, "residue": str(r)})
                break


# ---------------------------------------------------------------- placement through the pipeline
# The first sentence of the property is about PLACING an atom the way pdb2pqr does it: Biomolecule.repair_heavy
# (missing heavy atoms) and Biomolecule.add_hydrogens (hydrogens that are not part of a tetrahedral XH3 group)
# gather up to three present neighbours of the missing atom, their template counterparts, and call
# quatfit.find_coordinates. The stream below makes every atom such a placement can use -- the heavy atoms of one
# interior residue and the peptide neighbours C(i-1), N(i+1) -- an exact rigid image R*template + t of the
# topology template, omits k side-chain heavy atoms from the input, runs the real steps of main.non_trivial
# (is_repairable, repair_heavy, update_ss_bridges, add_hydrogens) and compares every placed atom with
# R*template + t. The expected position is computed from the topology data files (a definitions object that is
# never handed to the implementation) and the R, t drawn here.

_oracle_defs = None
_repair_templates = {}


def oracle_defs():
    global _oracle_defs
    if _oracle_defs is None:
        from pdb2pqr import io as pio

        _oracle_defs = pio.get_definitions()
    return _oracle_defs


_impl_defs = None


def impl_defs():
    """the definitions object handed to the implementation: loaded once per process, as in a pdb2pqr run (parsing the
    topology files takes longer than a whole case); never read by the oracle"""
    global _impl_defs
    if _impl_defs is None:
        from pdb2pqr import io as pio

        _impl_defs = pio.get_definitions()
    return _impl_defs


def repair_template(resname):
    """(atom names in template order, {name: template xyz} incl. the peptide neighbours "C-1"/"N+1" of the PEPTIDE
    patch, {name: bonded names}) from the topology data files"""
    if resname not in _repair_templates:
        d = oracle_defs()
        ref = d.map[resname]
        order = list(ref.map)
        coords = {an: [float(a.x), float(a.y), float(a.z)] for an, a in ref.map.items()}
        bonds = {an: list(a.bonds) for an, a in ref.map.items()}
        for an, a in d.patches["PEPTIDE"].map.items():
            coords[an] = [float(a.x), float(a.y), float(a.z)]
        _repair_templates[resname] = (order, coords, bonds)
    return _repair_templates[resname]


def side_chain(resname):
    order, _c, _b = repair_template(resname)
    return [a for a in order if not a.startswith("H") and a not in G.BACKBONE]


def quatfit_hydrogens(resname):
    """hydrogens of the template that add_hydrogens places with the three-point superposition: all but those of
    a tetrahedral XH3 group (Amino.rebuild_tetrahedral builds those from two atoms / tetrahedral geometry)"""
    order, _c, bonds = repair_template(resname)
    out = []
    for h in order:
        if not h.startswith("H") or not bonds[h]:
            continue
        heavy = bonds[h][0]
        if sum(1 for b in bonds[heavy] if b.startswith("H")) == 3:
            continue
        out.append(h)
    return out


REPAIR_TYPES = [n for n in G.AA3 if n != "GLY"]


def gen_repair_case(rng: random.Random):
    """one input of the pipeline stream: a peptide window (text), the interior residue that becomes the rigid
    image of its template, R, t, and the side-chain heavy atoms left out of the input"""
    for _ in range(400):
        resname = rng.choice(REPAIR_TYPES)
        sc = side_chain(resname)
        mode = rng.choice(["suffix"] * 7 + ["subset"] * 2 + ["suffix+O"])
        k = rng.randint(1, len(sc))
        # main.is_repairable refuses inputs that lack more than a tenth of their heavy atoms: longer windows for larger k
        nres = max(3, min(14, (11 * (k + 2)) // 7 + 2))
        try:
            _f, res = G.window(rng, nres, must_have=resname)
        except RuntimeError:
            continue
        order, tc, _b = repair_template(resname)
        idx = [i for i in range(1, len(res) - 1) if res[i][0].resn == resname and sorted(a.name for a in res[i]) == sorted(G.BACKBONE + sc)]
        if not idx:
            continue
        i = rng.choice(idx)
        # is_repairable: (atoms missing) / (heavy atoms present) <= 0.1, where the OXT of the C-terminus counts as missing
        nheavy = sum(len(r) for r in res)
        extra = 1 if mode == "suffix+O" else 0
        kmax = (nheavy - 11 * extra - 10) // 11
        if kmax < 1:
            continue
        k = min(k, kmax)
        if mode == "subset":
            chosen = set(rng.sample(sc, k))
            removed = [a for a in sc if a in chosen]
        else:
            removed = sc[len(sc) - k :]
        if mode == "suffix+O":
            removed = ["O"] + removed
        res[i] = [a for a in res[i] if a.name not in removed]
        G.set_chain(res, "A", 1)
        off = 10 ** rng.choice([0, 1, 1, 2, 2, 3, 4])
        return {
            "stream": "repair",
            "pdb": G.to_pdb([res]),
            "resseq": i + 1,
            "resname": resname,
            "removed": removed,
            "k": len(removed),
            "mode": mode,
            "R": G.rotation(rng),
            "t": [rng.uniform(-off, off) for _ in range(3)],
            "off": off,
        }
    raise RuntimeError("no window for the repair stream")


def run_repair(case, motion=None):
    """the real steps on the stored input. Returns (status, {name: xyz} rebuilt heavy atoms, {name: xyz} hydrogens
    placed by superposition); `motion` = (R2, t2) applied to the whole structure before anything is placed"""
    import os
    import tempfile

    from pdb2pqr import io as pio
    from pdb2pqr import main as pmain

    G.quiet()
    fd, path = tempfile.mkstemp(suffix=".pdb", prefix="c15p_")
    with os.fdopen(fd, "w") as f:
        f.write(case["pdb"])
    try:
        pdblist, _ = pio.get_molecule(path)
    finally:
        os.unlink(path)
    bio, _d, _l = pmain.setup_molecule(pdblist, impl_defs(), None)
    bio.set_termini()
    bio.update_bonds()
    residues = list(bio.residues)
    pos = next(j for j, r in enumerate(residues) if r.res_seq == case["resseq"])
    prev, target, nxt = residues[pos - 1], residues[pos], residues[pos + 1]
    _order, tc, _b = repair_template(case["resname"])
    R, t = case["R"], case["t"]

    def put(atom, xyz):
        atom.x, atom.y, atom.z = float(xyz[0]), float(xyz[1]), float(xyz[2])

    for a in target.atoms:
        put(a, rigid_image(R, t, tc[a.name]))
    # the peptide neighbours the placement may use: C of the previous residue at the image of "C-1", N of the next one
    # at the image of "N+1" (the neighbouring residues are translated as a whole)
    for other, name, tname in ((prev, "C", "C-1"), (nxt, "N", "N+1")):
        anchor = other.get_atom(name)
        img = rigid_image(R, t, tc[tname])
        d = sub(img, [anchor.x, anchor.y, anchor.z])
        for a in other.atoms:
            put(a, [a.x + d[0], a.y + d[1], a.z + d[2]])
        put(anchor, img)
    if motion is not None:
        R2, t2 = motion
        for r in residues:
            for a in r.atoms:
                put(a, rigid_image(R2, t2, [a.x, a.y, a.z]))
    try:
        repairable = pmain.is_repairable(bio, False)
    except ValueError:
        return "refused(no heavy atoms)", {}, {}
    if not repairable:
        # main.non_trivial does not call repair_heavy then (more than a tenth of the heavy atoms missing)
        return "pipeline-does-not-repair(too many atoms missing)", {}, {}
    try:
        bio.repair_heavy()
    except ValueError:
        return "cannot-rebuild", {}, {}
    heavy = {n: list(map(float, target.get_atom(n).coords)) for n in case["removed"] if target.has_atom(n)}
    bio.update_ss_bridges()
    bio.add_hydrogens()
    hyd = {h: list(map(float, target.get_atom(h).coords)) for h in quatfit_hydrogens(case["resname"]) if target.has_atom(h)}
    return "ok", heavy, hyd


def repair_tol(case, motion=None):
    off = case["off"]
    if motion is not None:
        off = max(off, max(abs(x) for x in motion[1]))
    return 1e-6 * max(1.0, off / 1e3)  # as for the direct calls: absolute 1e-6 A up to 1000 A from the origin


def repair_deviations(case, motion=None):
    """(status, [(routine, atom, deviation from the rigid image of the template position, placed xyz)])"""
    status, heavy, hyd = run_repair(case, motion)
    _order, tc, _b = repair_template(case["resname"])
    out = []
    for routine, placed in (("repair_heavy", heavy), ("add_hydrogens", hyd)):
        for name, got in placed.items():
            want = rigid_image(case["R"], case["t"], tc[name])
            if motion is not None:
                want = rigid_image(motion[0], motion[1], want)
            out.append((routine, name, norm(sub(got, want)), got))
    return status, out


def repair_cases(ctx: Ctx, n):
    rng = ctx.rng
    done = 0
    attempts = 0
    while done < n and attempts < 3 * n:
        attempts += 1
        case = gen_repair_case(rng)
        status, devs = repair_deviations(case)
        ctx.evaluations += 1
        if status != "ok":
            ctx.count("repair-oracle", "skipped: " + status)
            continue
        done += 1
        resname, k = case["resname"], case["k"]
        ctx.distinct.add(("repair", resname, k, case["mode"], int(math.log10(case["off"]))))
        ctx.count("repair-missing-heavy-atoms-k", k)
        ctx.count("repair-residues", resname)
        ctx.count("repair-mode", case["mode"])
        ctx.count("repair-placed-atoms", "heavy", sum(1 for d in devs if d[0] == "repair_heavy"))
        ctx.count("repair-placed-atoms", "hydrogen (three-point superposition)", sum(1 for d in devs if d[0] == "add_hydrogens"))
        if done == 1:
            ctx.sample({"routine": "repair_heavy+add_hydrogens", "residue": f"{resname} {case['resseq']}", "left out": case["removed"], "offset scale": case["off"]})
        tol = repair_tol(case)
        verdict = "holds"
        lost = [a for a in case["removed"] if a not in {d[1] for d in devs}]
        if lost:
            verdict = "atom-not-rebuilt"
            ctx.violate({"routine": "repair_heavy", "class": resname, "kind": verdict}, f"{resname} {case['resseq']} without {case['removed']}: {lost} not rebuilt", dict(case))
        else:
            for j, (routine, name, err, _got) in enumerate(devs):
                if not (err <= tol):
                    verdict = "inexact"
                    nth = f"rebuilt heavy atom number {case['removed'].index(name) + 1} of {k}" if routine == "repair_heavy" else "hydrogen"
                    ctx.violate(
                        {"routine": routine, "class": resname, "kind": verdict},
                        f"{resname} {case['resseq']} (exact rigid image of its template, offset scale {case['off']}) without {case['removed']}: {name} ({nth}) is placed {err:.3e} A from R*template+t",
                        dict(case),
                    )
                    break
        ctx.count("repair-oracle", verdict)
        # the result moves with the structure
        if done % 3 == 0:
            off2 = 10 ** rng.choice([1, 2, 3, 4])
            motion = (G.rotation(rng), [rng.uniform(-off2, off2) for _ in range(3)])
            status2, devs2 = repair_deviations(case, motion)
            ctx.evaluations += 1
            tol2 = repair_tol(case, motion)
            first = {(d[0], d[1]): d[3] for d in devs}
            bad = None
            if status2 != status or {(d[0], d[1]) for d in devs2} != set(first):
                bad = ("different atoms placed", "not-equivariant", "repair_heavy")
            else:
                for routine, name, err, got in devs2:
                    moved = rigid_image(motion[0], motion[1], first[(routine, name)])
                    if not (norm(sub(got, moved)) <= 10 * tol2):
                        bad = (f"{name} does not move with the structure ({norm(sub(got, moved)):.3e} A)", "not-equivariant", routine)
                        break
                    if not (err <= tol2):
                        bad = (f"{name} is placed {err:.3e} A from the moved R*template+t", "inexact", routine)
                        break
            ctx.count("repair-equivariance", "holds" if bad is None else bad[1])
            if bad is not None:
                rp = dict(case)
                rp["R2"], rp["t2"] = motion
                ctx.violate({"routine": bad[2], "class": resname, "kind": bad[1] + "(moved input)"}, f"{resname} {case['resseq']} without {case['removed']} after a further rigid motion of the whole input: {bad[0]}", rp)


def replay_repair(rp) -> bool:
    bad = False
    motions = [None] + ([(rp["R2"], rp["t2"])] if "R2" in rp else [])
    first = None
    for motion in motions:
        status, devs = repair_deviations(rp, motion)
        tol = repair_tol(rp, motion)
        print(f"{rp['resname']} {rp['resseq']} without {rp['removed']}{' (whole input moved)' if motion else ''}: {status}; tolerance {tol:.1e} A")
        for routine, name, err, got in devs:
            print(f"  {routine:14s} {name:4s} {err:.3e} A from R*template+t{'   <-- ' if err > tol else ''}")
            bad = bad or not (err <= tol)
            if motion is not None and first is not None and (routine, name) in first:
                bad = bad or not (norm(sub(got, rigid_image(motion[0], motion[1], first[(routine, name)]))) <= 10 * tol)
        if status == "ok" and any(a not in {d[1] for d in devs} for a in rp["removed"]):
            bad = True
        if motion is None:
            first = {(d[0], d[1]): d[3] for d in devs}
    return bad


def run(ctx: Ctx):
    ctx.extra["rule"] = (
        "find_coordinates: template triples of the real topology (every atom of every amino acid with three bonded neighbours) and random 3-5 point sets, rigid images under random rotations and offsets 1..1e5 A, "
        "near-collinear sets; qchichange/dihedral: random axes, angles in (-720,720), special angles; set_dihedral_angle / rotate_tetrahedral on real residues of peptide windows; "
        "placement through the pipeline: an interior residue of a peptide window (19 residue types) whose heavy atoms and peptide neighbours C(i-1), N(i+1) are an exact rigid image "
        "(random proper rotation, offsets 1..1e4 A) of its topology template, k = 1..all side-chain heavy atoms left out (suffixes of the side chain, random subsets, with the carbonyl O), "
        "real is_repairable / repair_heavy / update_ss_bridges / add_hydrogens, every rebuilt heavy atom and every hydrogen placed by the three-point superposition compared with R*template+t, "
        "every third case again after a further rigid motion of the whole input; "
        "a case is (routine, configuration class, size / decade); distinct counts distinct tuples"
    )
    fit_cases(ctx, ctx.scale(1500, 200000))
    chi_cases(ctx, ctx.scale(800, 100000))
    torsion_cases(ctx, ctx.scale(120, 5000))
    repair_cases(ctx, ctx.scale(400, 8000))


def replay_torsion(rp) -> bool:
    """the stored successive torsion changes on the stored structure; True when the property fails again"""
    import os
    import tempfile

    from pdb2pqr import cells, debump
    from pdb2pqr import io as pio
    from pdb2pqr import main as pmain
    from pdb2pqr import utilities as util
    from pdb2pqr.config import CELL_SIZE

    G.quiet()
    fd, path = tempfile.mkstemp(suffix=".pdb", prefix="c15r_")
    with os.fdopen(fd, "w") as f:
        f.write(rp["pdb"])
    try:
        pdblist, _ = pio.get_molecule(path)
    finally:
        os.unlink(path)
    bio, _d, _l = pmain.setup_molecule(pdblist, pio.get_definitions(), None)
    bio.set_termini()
    bio.update_bonds()
    deb = debump.Debump(bio)
    deb.cells = cells.Cells(CELL_SIZE)
    deb.cells.assign_cells(bio)
    bio.calculate_dihedral_angles()
    bio.update_internal_bonds()
    bio.set_reference_distance()
    r = next(x for x in bio.residues if str(x) == rp["residue"])
    k = rp["dihedral"]
    names = r.reference.dihedrals[k].split()
    bad = False
    for i, angle in enumerate(rp["angles"]):
        before = {a.name: [a.x, a.y, a.z] for a in r.atoms}
        moved = r.get_moveable_names(names[2])
        deb.set_dihedral_angle(r, k, angle)
        after = {a.name: [a.x, a.y, a.z] for a in r.atoms}
        new = util.dihedral(*[after[x] for x in names])
        want = ((angle + 180.0) % 360.0) - 180.0
        dev = abs(((new - want + 180.0) % 360.0) - 180.0)
        drift = max([abs(math.dist(before[m], before[ax]) - math.dist(after[m], after[ax])) for m in moved for ax in (names[1], names[2])] or [0.0])
        fixed_moved = [nm for nm in before if nm not in moved and before[nm] != after[nm]]
        print(f"change {i + 1}: requested {angle}, measured {new} (off by {dev:.4f} degrees); largest change of a distance to the axis atoms {drift:.2e} A; fixed atoms moved: {fixed_moved}")
        bad = bad or (names[3] in moved and dev > 0.05) or drift > 1e-6 or bool(fixed_moved)
    return bad


def replay(ctx: Ctx, data: dict) -> bool:
    from pdb2pqr import quatfit

    rp = data.get("replay", data)
    if rp.get("stream") == "repair":
        return replay_repair(rp)
    if "angles" in rp:
        return replay_torsion(rp)
    if "defs" in rp:
        real = quatfit.find_coordinates(len(rp["defs"]), rp["refs"], rp["defs"], rp["atom"])
        err = norm(sub(list(real), rp["want"])) if "want" in rp else None
        print("placed:", list(real), "error:", err)
        return err is not None and err > 1e-6
    return True
