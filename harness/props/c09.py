"""C09 — formatting and naming options never change the computed model.

Tie: the model IS the regenerated footprint of main.py (gen/mainflow.py -> Gen/MainFlow.lean), on
which the Lean theorems are kernel-checked. Oracle: metamorphic runs of the real pipeline — pairs
differing in exactly one option, compared column by column; --drop-water against the input with its
waters deleted; --neutraln/--neutralc against the plain run."""

from __future__ import annotations

from decimal import Decimal

import gen_struct as G
from core import Ctx
from props import c01

import gen.mainflow as genmainflow

GENERATORS = (genmainflow.generate,)
TRUSTED_BASE = [
    "Lean 4.33.0 kernel; axioms ⊆ {propext, Classical.choice, Quot.sound}",
    "translator gen/mainflow.py (AST of main.py -> reads / read contexts / call skeleton), regenerated every run; reads hidden from the AST: check_options' getattr loop over IGNORED_PROPKA_OPTIONS (modelled as touching only those keys), run_propka handing the namespace to PROPKA (not analysed)",
    "the metamorphic statement itself is checked on generated structures x option subsets x force fields",
]
ASSUMPTIONS = ["options reach the pipeline only through the argparse namespace"]
FORMAT_OPTS = ["--whitespace", "--keep-chain", "--include-header", "--pdb-output=@DIR@/out.pdb", "--apbs-input=@DIR@/apbs.in", "--ffout"]


def atom_records(pqr_text: str, ws: bool):
    """(record, name, resname, chain, resseq, x, y, z, q, r) per atom line"""
    out = []
    for l in pqr_text.splitlines():
        if not l.startswith(("ATOM", "HETATM")):
            continue
        if ws:
            t = l.split()
            # record serial name resname [chain] resseq x y z q r
            chain = t[4] if len(t) == 11 else ""
            out.append((t[0], t[2], t[3], chain, t[-6], t[-5], t[-4], t[-3], t[-2], t[-1]))
        else:
            out.append((l[0:6].strip(), l[12:16].strip(), l[16:20].strip(), l[21:22].strip(), l[22:26].strip(), l[30:38].strip(), l[38:46].strip(), l[46:54].strip(), l[54:62].strip(), l[62:69].strip()))
    return out


def gen_case(rng):
    text, ff, opts, feats = c01.gen_case(rng)
    base = [o for o in opts if o not in ("--whitespace", "--keep-chain")]
    for o in FORMAT_OPTS:
        if rng.random() < 0.35:
            base.append(o if o != "--ffout" else "--ffout=" + rng.choice(c01.FFS))
    return text, ff, base


def compare(ctx, text, ff, base, opt):
    """run with `base` and with `base + opt`; returns None or (column, message)"""
    full_opt = opt if opt != "--ffout" else "--ffout=" + ("AMBER" if ff != "AMBER" else "CHARMM")
    a_opts = [o for o in base if not o.startswith(opt.split("=")[0])]
    b_opts = a_opts + [full_opt]
    ra = G.run_pipeline(text, a_opts)
    rb = G.run_pipeline(text, b_opts)
    ctx.evaluations += 2
    if ra.status != rb.status:
        empty = ra.status == "ok" and not any(l.startswith(("ATOM", "HETATM")) for l in (ra.pqr or "").splitlines())
        return ("status" if not empty else "status(no-atom-has-parameters)", f"{opt}: run without it {ra.status}, with it {rb.status} ({str(rb.exc)[:80]})")
    if ra.status != "ok":
        return None
    wa, wb = "--whitespace" in a_opts, "--whitespace" in b_opts
    A, B = atom_records(ra.pqr, wa), atom_records(rb.pqr, wb)
    if len(A) != len(B):
        return ("atom-count", f"{opt}: {len(A)} atom lines without it, {len(B)} with it")
    for i, (x, y) in enumerate(zip(A, B)):
        for col, k in (("x", 5), ("y", 6), ("z", 7), ("charge", 8), ("radius", 9)):
            same = x[k] == y[k] if wa == wb else Decimal(x[k]) == Decimal(y[k])
            if not same:
                return (col, f"{opt}: atom line {i} {col} is {x[k]!r} without it and {y[k]!r} with it")
        if x[4] != y[4]:
            return ("order", f"{opt}: atom line {i} belongs to residue {x[4]} without it and {y[4]} with it")
        if not opt.startswith("--ffout") and (x[1], x[2]) != (y[1], y[2]):
            return ("names", f"{opt}: atom line {i} is {x[1:3]} without it and {y[1:3]} with it")
        if not opt.startswith("--keep-chain") and x[3] != y[3]:
            return ("chain", f"{opt}: chain column of atom line {i} changes")
    if opt.startswith("--keep-chain"):
        if any(x[3] for x in A):
            return ("chain", "chain column is filled without --keep-chain")
    return None


def check_drop_water(ctx, rng):
    _f, res = G.window(rng)
    G.set_chain(res, "A", 1)
    c = G.centroid(res)
    # waters as HETATM (deposited files) or ATOM records (MD tool chains), under both water residue names
    rec = rng.choice(["HETATM", "HETATM", "ATOM  ", "mixed"])
    waters = [G.water(rng, "A", 900 + i, c, 10.0, rng.choice(["HOH", "WAT"]), record=(rec if rec != "mixed" else ["HETATM", "ATOM  "][i % 2])) for i in range(rng.randint(1, 4))]
    ctx.count("drop-water: water record type", rec.strip())
    ff = rng.choice(c01.FFS)
    with_w = G.to_pdb([res], waters)
    without = "\n".join(l for l in with_w.splitlines() if l[17:20] not in ("HOH", "WAT")) + "\n"
    ra = G.run_pipeline(with_w, [f"--ff={ff}", "--drop-water"])
    rb = G.run_pipeline(without, [f"--ff={ff}"])
    rc = G.run_pipeline(with_w, [f"--ff={ff}"])
    ctx.evaluations += 3
    if ra.status != rb.status:
        return ("status", f"--drop-water: {ra.status} vs waters deleted by hand: {rb.status}", with_w, ff)
    if ra.status == "ok":
        if ra.pqr != rb.pqr:
            return ("drop-water", "--drop-water differs from running on the input with its waters deleted", with_w, ff)
        if rc.status == "ok" and not any(l[17:20].strip() in ("WAT", "HOH") or " WAT " in l for l in rc.pqr.splitlines()):
            return ("drop-water", "waters are removed although --drop-water is not given", with_w, ff)
    return None


def check_neutral(ctx, rng):
    _f, res = G.window(rng, rng.choice([2, 3, 5]), must_have=rng.choice(G.AA3 + [None] * 10))
    G.set_chain(res, "A", 1)
    if len(res) >= 3 and rng.random() < 0.45:
        # two peptides under one chain identifier with no TER: the first one ends at an internal OXT
        k = rng.randint(0, len(res) - 2)
        c = next(a for a in res[k] if a.name == "C")
        o = c.copy()
        o.name, o.elem = "OXT", "O"
        o.x += 1.2
        res[k].append(o)
        for r in res[k + 1 :]:
            for a in r:
                a.x += 30.0
    text = G.to_pdb([res])
    opt = rng.choice(["--neutraln", "--neutralc"])
    ra = G.run_pipeline(text, ["--ff=PARSE", "--whitespace"])
    rb = G.run_pipeline(text, ["--ff=PARSE", "--whitespace", opt])
    ctx.evaluations += 2
    if ra.status != "ok" or rb.status != "ok":
        if ra.status != rb.status:
            ends = {r[0].resn for r in res if any(a.name == "OXT" for a in r)} | {res[-1][0].resn}
            cell = ("C-terminal " + ("PRO" if "PRO" in ends else "/".join(sorted(ends)))) if opt == "--neutralc" else "N-terminal " + res[0][0].resn
            return ("status", f"{opt}: {ra.status} -> {rb.status} ({str(rb.exc.__cause__ or rb.exc)[:80]})", text, cell)
        return None
    qa = sum(Decimal(repr(r.charge)) for r in ra.biomolecule.residues)
    qb = sum(Decimal(repr(r.charge)) for r in rb.biomolecule.residues)
    neutralised = sum(1 for r in rb.biomolecule.residues if (getattr(r, "ffname", "") or "").startswith("NEUTRAL-" + opt[9].upper()))
    # every terminus of the kind asked for must be neutralised (an N-terminal proline keeps its charge)
    for y in rb.biomolecule.residues:
        ffn = getattr(y, "ffname", "") or ""
        if opt == "--neutralc" and getattr(y, "is_c_term", 0) and not getattr(y, "is_n_term", 0) and not ffn.startswith("NEUTRAL-C"):
            return ("neutral-not-applied", f"--neutralc: C-terminal residue {y} is looked up as {ffn}", text)
        if opt == "--neutraln" and getattr(y, "is_n_term", 0) and y.name != "PRO" and not ffn.startswith("NEUTRAL-N"):
            return ("neutral-not-applied", f"--neutraln: N-terminal residue {y} is looked up as {ffn}", text)
        if opt == "--neutraln" and ffn.startswith("NEUTRAL-C") or opt == "--neutralc" and ffn.startswith("NEUTRAL-N"):
            return ("neutral-wrong-end", f"{opt}: residue {y} is looked up as {ffn}", text)
    want = qa + (-neutralised if opt == "--neutraln" else neutralised)
    if qb != want:
        return ("neutral-shift", f"{opt}: total charge {qa} -> {qb}, {neutralised} terminus neutralised", text)
    # only terminal residues change
    for k, (x, y) in enumerate(zip(ra.biomolecule.residues, rb.biomolecule.residues)):
        # "change only chain-terminal residues": a residue at either end of a chain is terminal
        terminal = bool(getattr(y, "is_n_term", 0)) or bool(getattr(y, "is_c_term", 0))
        if not terminal and [(a.name, a.ffcharge, a.radius, a.x, a.y, a.z) for a in x.atoms] != [(a.name, a.ffcharge, a.radius, a.x, a.y, a.z) for a in y.atoms]:
            # what changes: parameters / atom set, or only where the hydrogen-bond optimisation put atoms
            same_params = [(a.name, a.ffcharge, a.radius) for a in x.atoms] == [(a.name, a.ffcharge, a.radius) for a in y.atoms]
            moved = [a.name for a, b in zip(x.atoms, y.atoms) if (a.x, a.y, a.z) != (b.x, b.y, b.z)] if same_params else []
            flip = y.name in ("ASN", "GLN", "HIS", "HID", "HIE", "HIP")
            only_opt = same_params and all(n.startswith("H") or flip for n in moved)
            return ("neutral-nonterminal", f"{opt}: non-terminal residue {y} changes ({'positions of ' + ','.join(moved) if same_params else 'atom set / parameters'})", text, "optimised-positions-only" if only_opt else "parameters-or-heavy-atoms")
    return None


def check_propka_ffout(ctx, rng):
    """the output naming scheme must not pick protonation states: PROPKA-driven runs at a pH where
    groups titrate, with and without --ffout / the other formatting options"""
    must = rng.choice(["LYS", "TYR", "CYS", "ASP", "GLU", "HIS", "ARG"])
    _f, res = G.window(rng, rng.choice([3, 4, 6]), must_have=must)
    G.set_chain(res, "A", 1)
    text = G.to_pdb([res])
    ff = rng.choice(c01.FFS)
    ph = rng.choice([1.0, 2.5, 11.0, 13.5])
    base = [f"--ff={ff}", "--titration-state-method=propka", f"--with-ph={ph}"]
    opt = rng.choice(["--ffout", "--ffout", "--ffout", "--whitespace", "--keep-chain", "--include-header"])
    if opt == "--ffout":
        other = rng.choice([f for f in c01.FFS if f != ff])
        a_opts, b_opts = base, base + [f"--ffout={other}"]
        ra, rb = G.run_pipeline(text, a_opts), G.run_pipeline(text, b_opts)
        ctx.evaluations += 2
        if ra.status != rb.status:
            return ("status", f"--ffout={other} with PROPKA at pH {ph}: {ra.status} without it, {rb.status} with it", text, ff, base, f"--ffout={other}")
        if ra.status != "ok":
            return None
        A, B = atom_records(ra.pqr, False), atom_records(rb.pqr, False)
        if len(A) != len(B):
            return ("atom-count", f"--ffout={other} with PROPKA at pH {ph} ({ff}): {len(A)} atom lines without it, {len(B)} with it", text, ff, base, f"--ffout={other}")
        for i, (x, y) in enumerate(zip(A, B)):
            for col, k in (("x", 5), ("y", 6), ("z", 7), ("charge", 8), ("radius", 9)):
                if x[k] != y[k]:
                    return (col, f"--ffout={other} with PROPKA at pH {ph} ({ff}): atom line {i} {col} is {x[k]!r} without it and {y[k]!r} with it", text, ff, base, f"--ffout={other}")
        return None
    pr = compare(ctx, text, ff, base, opt)
    return None if pr is None else (pr[0], pr[1], text, ff, base, opt)


# ---- rigidly translated copies: coordinates that fill their fixed-width columns
# A formatting option must leave the numbers alone for every structure, also one whose coordinates
# occupy all 8 columns of a field ("-142.302": no blank left in front of it) or 7 of them ("142.302").
# Deposited structures near the origin never do; large assemblies and translated coordinates do.
# Widths stay inside what the fixed-column format carries (-1000 < v < 1000 -> at most 8 characters).
WIDTH_PATTERNS = [
    {"x": "neg8"},
    {"y": "neg8"},
    {"z": "neg8"},
    {"x": "neg8", "y": "neg8", "z": "neg8"},
    {"x": "pos7"},
    {"y": "pos7"},
    {"z": "pos7"},
    {"x": "pos7", "y": "pos7", "z": "pos7"},
    None,  # drawn per axis
]
_COLS = {"x": (30, 38), "y": (38, 46), "z": (46, 54)}
_MARGIN = 6.0  # added hydrogens / debumping moves stay well inside the target interval


def width_pattern(rng, i):
    p = WIDTH_PATTERNS[i % len(WIDTH_PATTERNS)]
    if p is None:
        while True:
            p = {ax: k for ax in "xyz" for k in [rng.choice(["neg8", "pos7", "plain"])] if k != "plain"}
            if p:
                break
    return p


def translate_pdb(rng, text, pattern):
    """the same PDB file rigidly translated so that every atom's coordinate along the axes named in
    `pattern` lies in (-1000, -100) ("neg8": 8 characters with the sign) or [100, 1000) ("pos7");
    returns (text, translation) or None when the structure is wider than the interval"""
    lines = text.splitlines()
    atoms = [l for l in lines if l.startswith(("ATOM", "HETATM"))]
    t = {}
    for ax in "xyz":
        kind = pattern.get(ax)
        if kind is None:
            t[ax] = 0.0
            continue
        a, b = _COLS[ax]
        vals = [float(l[a:b]) for l in atoms]
        lo, hi = min(vals), max(vals)
        if kind == "neg8":
            tmin, tmax = -1000.0 + _MARGIN - lo, -100.0 - _MARGIN - hi
        else:
            tmin, tmax = 100.0 + _MARGIN - lo, 1000.0 - _MARGIN - hi
        if tmin > tmax:
            return None
        where = rng.choice(["near-100", "near-1000", "anywhere", "anywhere"])
        near0 = tmax if kind == "neg8" else tmin  # the end of the interval next to +-100
        far0 = tmin if kind == "neg8" else tmax
        v = near0 if where == "near-100" else far0 if where == "near-1000" else rng.uniform(tmin, tmax)
        t[ax] = round(v, 3)
    out = []
    for l in lines:
        if l.startswith(("ATOM", "HETATM")):
            l = l.ljust(54)
            f = "".join(f"{float(l[a:b]) + t[ax]:8.3f}" for ax, (a, b) in _COLS.items())
            assert len(f) == 24, f
            l = l[:30] + f + l[54:]
        out.append(l)
    return "\n".join(out) + "\n", t


def input_widths(text):
    """{axis: set of printed widths of that coordinate over the atoms of the input file}"""
    w = {ax: set() for ax in "xyz"}
    for l in text.splitlines():
        if l.startswith(("ATOM", "HETATM")):
            for ax, (a, b) in _COLS.items():
                w[ax].add(len(l[a:b].strip()))
    return w


def check_translated(ctx, rng, i, seen):
    text, ff, base = gen_case(rng)
    pattern = width_pattern(rng, i)
    tr = translate_pdb(rng, text, pattern)
    name = ",".join(f"{ax}:{pattern[ax]}" for ax in "xyz" if ax in pattern)
    if tr is None:
        ctx.count("translated copies: field widths", "structure wider than the interval (skipped)")
        return
    ttext, t = tr
    w = input_widths(ttext)
    for ax in "xyz":
        want = {"neg8": {8}, "pos7": {7}}.get(pattern.get(ax))
        assert want is None or w[ax] == want, (ax, pattern, w)
        ctx.count("translated copies: input " + ax + " width (characters)", max(w[ax]))
    ctx.count("translated copies: field widths", name)
    for opt in FORMAT_OPTS:
        pr = compare(ctx, ttext, ff, base, opt)
        ctx.distinct.add((opt.split("=")[0], ff, tuple(sorted(o.split("=")[0] for o in base)), name))
        ctx.count("translated copies: toggled", opt.split("=")[0])
        ctx.count("translated copies: oracle", "holds" if pr is None else pr[0])
        if pr is not None:
            sig = {"option": opt.split("=")[0], "column": pr[0]}
            k = tuple(sig.items())
            if k not in seen:
                seen.add(k)
                ctx.violate(sig, pr[1] + f" (input rigidly translated by {t}: {name})", {"pdb": ttext, "ff": ff, "base": base, "option": opt, "translation": t, "field_widths": name})


def run(ctx: Ctx):
    rng = ctx.rng
    ctx.extra["rule"] = (
        "peptide windows (every residue type forced in turn, pre-named states, two chains, waters) x force field x random base option subsets; each formatting option toggled on its own against the same base; "
        "the same on rigidly translated copies whose x, y, z (each alone, all three, mixed) fill all 8 columns of their field with a minus sign (-1000 < v < -100) or 7 of them (100 <= v < 1000); "
        "PROPKA-driven runs at pH 1/2.5/11/13.5 with and without --ffout=<another force field> and the other formatting options; --drop-water against hand-deleted waters; --neutraln/--neutralc against the plain PARSE run; a case is (option toggled, force field, base option set); distinct counts distinct tuples"
    )
    seen = set()
    n = ctx.scale(14, 600)
    for ci in range(n):
        text, ff, base = gen_case(rng)
        for opt in FORMAT_OPTS:
            pr = compare(ctx, text, ff, base, opt)
            ctx.distinct.add((opt.split("=")[0], ff, tuple(sorted(o.split("=")[0] for o in base))))
            ctx.count("toggled", opt.split("=")[0])
            ctx.count("oracle", "holds" if pr is None else pr[0])
            if pr is not None:
                sig = {"option": opt.split("=")[0], "column": pr[0]}
                k = tuple(sig.items())
                if k not in seen:
                    seen.add(k)
                    ctx.violate(sig, pr[1], {"pdb": text, "ff": ff, "base": base, "option": opt})
        if ci < 1:
            ctx.sample({"base_options": base, "toggled": FORMAT_OPTS})
    for ci in range(ctx.scale(8, 300)):
        pr = check_drop_water(ctx, rng)
        ctx.count("oracle", "holds" if pr is None else pr[0])
        if pr is not None:
            sig = {"option": "--drop-water", "column": pr[0]}
            if tuple(sig.items()) not in seen:
                seen.add(tuple(sig.items()))
                ctx.violate(sig, pr[1], {"pdb": pr[2], "ff": pr[3], "base": [], "option": "--drop-water"})
    for ci in range(ctx.scale(14, 500)):
        pr = check_propka_ffout(ctx, rng)
        ctx.count("propka-metamorphic", "holds" if pr is None else pr[0])
        if pr is not None:
            sig = {"option": pr[5].split("=")[0], "column": pr[0], "with": "propka"}
            if tuple(sig.items()) not in seen:
                seen.add(tuple(sig.items()))
                ctx.violate(sig, pr[1], {"pdb": pr[2], "ff": pr[3], "base": pr[4], "option": pr[5]})
    for ci in range(ctx.scale(28, 600)):
        pr = check_neutral(ctx, rng)
        ctx.count("oracle", "holds" if pr is None else pr[0])
        if pr is not None:
            sig = {"option": "neutral-termini", "column": pr[0]}
            if len(pr) > 3:
                sig["cell" if pr[0] == "status" else "what"] = pr[3]
            if tuple(sig.items()) not in seen:
                seen.add(tuple(sig.items()))
                ctx.violate(sig, pr[1], {"pdb": pr[2], "ff": "PARSE", "base": [], "option": "neutral"})
    # last, so that the streams above draw the same inputs per seed as before
    for ci in range(ctx.scale(len(WIDTH_PATTERNS), 30 * len(WIDTH_PATTERNS))):
        check_translated(ctx, rng, ci, seen)


def replay(ctx: Ctx, data: dict) -> bool:
    rp = data.get("replay", data)
    if rp["option"] in FORMAT_OPTS or rp["option"].startswith("--ffout"):
        pr = compare(ctx, rp["pdb"], rp["ff"], rp["base"], rp["option"])
        print(pr or "holds")
        return pr is not None
    return True
